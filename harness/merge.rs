//! target: guard/src/rules/path_value.rs
// K22: PathAwareValue::merge (input parameters are merged into the data without loss or silent override).
#![allow(unused_imports, dead_code, unused_variables)]
use super::*;
use std::mem::forget;

macro_rules! proof {
    ($name:ident, $unwind:literal, $body:block) => {
        #[kani::proof]
        #[kani::unwind($unwind)]
        #[kani::stub(std::fmt::format, crate::verif_stubs::format_stub)]
        #[kani::stub(std::rc::Rc::drop_slow, crate::verif_stubs::rc_drop_slow_stub)]
        #[kani::stub(core::ptr::drop_in_place, crate::verif_stubs::drop_in_place_stub)]
        #[kani::stub(std::hash::RandomState::new, crate::verif_stubs::random_state_stub)]
        fn $name() $body
    };
}

fn p() -> Path {
    Path(String::new(), Location { line: 0, col: 0 })
}

fn key(c: char) -> String {
    let mut s = String::new();
    s.push(c);
    s
}

fn one_entry_map(k: char, v: i64) -> PathAwareValue {
    let mut values = indexmap::IndexMap::with_hasher(crate::verif_stubs::random_state_stub());
    values.insert(key(k), PathAwareValue::Int((p(), v)));
    let mut keys = Vec::with_capacity(2);
    keys.push(PathAwareValue::String((p(), key(k))));
    PathAwareValue::Map((p(), MapValue { keys, values }))
}

fn get_int(m: &PathAwareValue, k: char) -> Option<i64> {
    match m {
        PathAwareValue::Map((_, mv)) => match mv.values.get(&key(k)) {
            Some(PathAwareValue::Int((_, v))) => Some(*v),
            _ => None,
        },
        _ => None,
    }
}

macro_rules! k22_disjoint {
    ($name:ident, $k1:literal, $k2:literal) => {
        proof!($name, 8, {
            let x: i64 = kani::any();
            let y: i64 = kani::any();
            let r1 = one_entry_map($k1, x).merge(one_entry_map($k2, y));
            match &r1 {
                Ok(m) => {
                    assert!(get_int(m, $k1) == Some(x) && get_int(m, $k2) == Some(y));
                    assert!(matches!(m, PathAwareValue::Map((_, mv)) if mv.values.len() == 2 && mv.keys.len() == 2));
                }
                Err(_) => assert!(false),
            }
            kani::cover!(r1.is_ok());
            forget(r1);
        });
    };
}
//@ k22_merge_disjoint_ab props=C17 tier=probe expect=pass fns=PathAwareValue::merge :: merge of {a: x} with {b: y} (x, y any i64): Ok, the result has exactly the two keys with their values (no loss, no override)
k22_disjoint!(k22_merge_disjoint_ab, 'a', 'b');
//@ k22_merge_disjoint_ba props=C17 tier=probe expect=pass fns=PathAwareValue::merge :: merge of {b: y} with {a: x}: same content as the other order (order of parameter files does not matter for the merged content)
k22_disjoint!(k22_merge_disjoint_ba, 'b', 'a');

//@ k22_merge_conflict props=C17 tier=quick expect=pass fns=PathAwareValue::merge :: merge of {a: x} with {a: y}: an error (MultipleValues), never a silent choice - also when x == y
proof!(k22_merge_conflict, 8, {
    let x: i64 = kani::any();
    let y: i64 = kani::any();
    let r = one_entry_map('a', x).merge(one_entry_map('a', y));
    assert!(matches!(&r, Err(Error::MultipleValues(_))));
    kani::cover!(x == y);
    forget(r);
});

//@ k22_merge_kinds props=C17,C08:t tier=quick expect=pass fns=PathAwareValue::merge :: merge of a map with a scalar / scalar with map: IncompatibleError, never a panic
proof!(k22_merge_kinds, 8, {
    let r = one_entry_map('a', kani::any()).merge(PathAwareValue::Int((p(), kani::any())));
    assert!(matches!(&r, Err(Error::IncompatibleError(_))));
    let r2 = PathAwareValue::Bool((p(), kani::any())).merge(one_entry_map('a', kani::any()));
    assert!(matches!(&r2, Err(Error::IncompatibleError(_))));
    kani::cover!(r.is_err());
    forget(r);
    forget(r2);
});

//@ k22_twin props=C17 tier=quick expect=fail fns=PathAwareValue::merge :: vacuity twin of the merge family
proof!(k22_twin, 8, {
    let r = one_entry_map('a', kani::any()).merge(one_entry_map('a', kani::any()));
    assert!(r.is_err());
    forget(r);
    assert!(false, "twin-reached");
});
