//! target: guard/src/commands/test.rs
// Harnesses injected as a child module of guard/src/commands/test.rs
use super::*;

const CODES: [i32; 3] = [SUCCESS_STATUS_CODE, TEST_ERROR_STATUS_CODE, TEST_FAILURE_STATUS_CODE];

fn any_code() -> i32 {
    let i: usize = kani::any();
    kani::assume(i < 3);
    CODES[i]
}

fn severity(c: i32) -> u8 {
    // documented: error (1) dominates failure (7) dominates success (0)
    if c == 1 { 2 } else if c == 7 { 1 } else { 0 }
}

//@ k10_exit_fold props=C06,C16,C08 tier=quick expect=pass fns=get_exit_code :: get_exit_code folded over 4 symbolic per-file codes in {0,1,7}: result = most severe code seen (1 > 7 > 0); unreachable!() never reached
#[kani::proof]
fn k10_exit_fold() {
    let mut acc = SUCCESS_STATUS_CODE;
    let mut worst = 0i32;
    let mut i = 0;
    while i < 4 {
        let c = any_code();
        acc = get_exit_code(acc, c);
        if severity(c) > severity(worst) { worst = c; }
        assert!(acc == worst);
        i += 1;
    }
    kani::cover!(acc == 0);
    kani::cover!(acc == 1);
    kani::cover!(acc == 7);
}

//@ k10_twin props=C06,C16,C08 tier=quick expect=fail fns=get_exit_code :: vacuity twin: same setup, final assert(false) must be reported FAILED
#[kani::proof]
fn k10_twin() {
    let c = any_code();
    let r = get_exit_code(SUCCESS_STATUS_CODE, c);
    assert!(r == c);
    assert!(false, "twin-reached");
}
