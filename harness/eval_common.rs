//! target: guard/src/rules/eval.rs
// Shared helpers for the eval.rs harness families: stub evaluation context, value builders. No harnesses here.
// Child module of rules::eval => has access to the private leaf operations.
#![allow(unused_imports, dead_code, unused_variables)]
use super::*;
use std::cell::Cell;
use std::mem::forget;
use crate::rules::path_value::{Location, MapValue, Path};

macro_rules! proof {
    ($name:ident, $unwind:literal, $body:block) => {
        #[kani::proof]
        #[kani::unwind($unwind)]
        #[kani::stub(std::fmt::format, crate::verif_stubs::format_stub)]
        #[kani::stub(std::rc::Rc::drop_slow, crate::verif_stubs::rc_drop_slow_stub)]
        #[kani::stub(fancy_regex::Regex::new, crate::verif_stubs::regex_new_stub)]
        #[kani::stub(fancy_regex::Regex::is_match, crate::verif_stubs::regex_is_match_stub)]
        #[kani::stub(core::ptr::drop_in_place, crate::verif_stubs::drop_in_place_stub)]
        fn $name() $body
    };
}

pub(super) fn p() -> Path {
    Path(String::new(), Location { line: 0, col: 0 })
}

pub(super) fn any_status() -> Status {
    let s: u8 = kani::any();
    kani::assume(s < 3);
    match s {
        0 => Status::PASS,
        1 => Status::FAIL,
        _ => Status::SKIP,
    }
}

// ---------------------------------------------------------------------------------------------
// stub evaluation context: records what the code under test emits; `query`, `rule_status`
// return what the harness planted. Scopes / traversal are NOT covered by harnesses using it.
// ---------------------------------------------------------------------------------------------
pub(super) const PASS: u8 = 0;
pub(super) const FAIL: u8 = 1;
pub(super) const SKIP: u8 = 2;
pub(super) const ERR: u8 = 3;
pub(super) fn code(s: Status) -> u8 {
    match s {
        Status::PASS => PASS,
        Status::FAIL => FAIL,
        Status::SKIP => SKIP,
    }
}

pub(super) struct Ctx {
    pub(super) depth: i32,
    pub(super) min_depth: i32,
    pub(super) starts: u32,
    pub(super) ends: u32,
    // Disjunction records in emission order
    pub(super) disj: [u8; 4],
    pub(super) n_disj: usize,
    // ClauseValueCheck records
    pub(super) n_success: u32,
    pub(super) n_dependent: u32,
    pub(super) n_unary_fail: u32,
    pub(super) n_cmp_fail: u32,
    pub(super) n_in_fail: u32,
    pub(super) n_noval: u32,
    // GuardClauseBlockCheck (clause level) record
    pub(super) n_block: u32,
    pub(super) block_status: u8,
    // RuleCheck / RuleCondition / FileCheck records (rule and file level), in emission order
    pub(super) rulechecks: [u8; 4],
    pub(super) n_rulecheck: usize,
    pub(super) ruleconds: [u8; 4],
    pub(super) n_rulecond: usize,
    pub(super) n_filecheck: u32,
    pub(super) file_status: u8,
    // per-name planted rule statuses: a dependent rule called "x<i>" has status leaf[i] (0..2, 3 => Err)
    pub(super) leaf: [u8; 4],
    pub(super) leaf_calls: [u32; 4],
    // planted answers
    pub(super) rule: u8, // 0..2 status, 3 => Err
    pub(super) rule_calls: u32,
    pub(super) lhs: Option<Vec<QueryResult>>,
    pub(super) rhs: Option<Vec<QueryResult>>,
    pub(super) query_calls: u32,
}

impl Ctx {
    pub(super) fn new() -> Ctx {
        Ctx {
            depth: 0,
            min_depth: 0,
            starts: 0,
            ends: 0,
            disj: [9; 4],
            n_disj: 0,
            n_success: 0,
            n_dependent: 0,
            n_unary_fail: 0,
            n_cmp_fail: 0,
            n_in_fail: 0,
            n_noval: 0,
            n_block: 0,
            block_status: 9,
            rulechecks: [9; 4],
            n_rulecheck: 0,
            ruleconds: [9; 4],
            n_rulecond: 0,
            n_filecheck: 0,
            file_status: 9,
            leaf: [9; 4],
            leaf_calls: [0; 4],
            rule: 0,
            rule_calls: 0,
            lhs: None,
            rhs: None,
            query_calls: 0,
        }
    }
    pub(super) fn balanced(&self) -> bool {
        self.depth == 0 && self.min_depth == 0 && self.starts == self.ends
    }
}

impl<'value> RecordTracer<'value> for Ctx {
    fn start_record(&mut self, _context: &str) -> Result<()> {
        self.depth += 1;
        self.starts += 1;
        Ok(())
    }
    fn end_record(&mut self, _context: &str, record: RecordType<'value>) -> Result<()> {
        self.depth -= 1;
        self.ends += 1;
        if self.depth < self.min_depth {
            self.min_depth = self.depth;
        }
        match &record {
            RecordType::Disjunction(bc) => {
                if self.n_disj < 4 {
                    self.disj[self.n_disj] = code(bc.status);
                }
                self.n_disj += 1;
            }
            RecordType::GuardClauseBlockCheck(bc) => {
                self.n_block += 1;
                self.block_status = code(bc.status);
            }
            RecordType::RuleCheck(ns) => {
                if self.n_rulecheck < 4 {
                    self.rulechecks[self.n_rulecheck] = code(ns.status);
                }
                self.n_rulecheck += 1;
            }
            RecordType::RuleCondition(st) => {
                if self.n_rulecond < 4 {
                    self.ruleconds[self.n_rulecond] = code(*st);
                }
                self.n_rulecond += 1;
            }
            RecordType::FileCheck(ns) => {
                self.n_filecheck += 1;
                self.file_status = code(ns.status);
            }
            RecordType::ClauseValueCheck(cc) => match cc {
                ClauseCheck::Success => self.n_success += 1,
                ClauseCheck::DependentRule(_) => self.n_dependent += 1,
                ClauseCheck::Unary(_) => self.n_unary_fail += 1,
                ClauseCheck::Comparison(_) => self.n_cmp_fail += 1,
                ClauseCheck::InComparison(_) => self.n_in_fail += 1,
                ClauseCheck::NoValueForEmptyCheck(_) => self.n_noval += 1,
                _ => {}
            },
            _ => {}
        }
        forget(record);
        Ok(())
    }
}

impl<'value, 'loc: 'value> EvalContext<'value, 'loc> for Ctx {
    fn query(&mut self, _query: &'value [QueryPart<'loc>]) -> Result<Vec<QueryResult>> {
        self.query_calls += 1;
        // first call = the clause's LHS, second = a query RHS
        if self.query_calls == 1 {
            match self.lhs.take() {
                Some(v) => Ok(v),
                None => Err(Error::RetrievalError(String::new())),
            }
        } else {
            match self.rhs.take() {
                Some(v) => Ok(v),
                None => Err(Error::RetrievalError(String::new())),
            }
        }
    }
    fn find_parameterized_rule(&mut self, _rule_name: &str) -> Result<&'value ParameterizedRule<'loc>> {
        Err(Error::MissingValue(String::new()))
    }
    fn root(&mut self) -> Rc<PathAwareValue> {
        Rc::new(PathAwareValue::Null(p()))
    }
    fn rule_status(&mut self, rule_name: &'value str) -> Result<Status> {
        self.rule_calls += 1;
        let b = rule_name.as_bytes();
        let which = if b.len() == 2 && b[0] == b'x' && b[1] >= b'0' && b[1] <= b'3' {
            let i = (b[1] - b'0') as usize;
            self.leaf_calls[i] += 1;
            self.leaf[i]
        } else {
            self.rule
        };
        match which {
            0 => Ok(Status::PASS),
            1 => Ok(Status::FAIL),
            2 => Ok(Status::SKIP),
            _ => Err(Error::MissingValue(String::new())),
        }
    }
    fn resolve_variable(&mut self, _variable_name: &'value str) -> Result<Vec<QueryResult>> {
        Err(Error::MissingValue(String::new()))
    }
    fn add_variable_capture_key(&mut self, _variable_name: &'value str, _key: Rc<PathAwareValue>) -> Result<()> {
        Ok(())
    }
}

// kinds of a single query result
pub(super) const V_NULL: u8 = 0;
pub(super) const V_INT: u8 = 1;
pub(super) const V_FLOAT: u8 = 2;
pub(super) const V_BOOL: u8 = 3;
pub(super) const V_STR_EMPTY: u8 = 4;
pub(super) const V_STR_X: u8 = 5;
pub(super) const V_LIST_EMPTY: u8 = 6;
pub(super) const V_LIST_1: u8 = 7;
pub(super) const V_MAP_EMPTY: u8 = 8;
pub(super) const V_CHAR: u8 = 9;
pub(super) const V_UNRESOLVED: u8 = 10;

pub(super) fn mk_value(kind: u8) -> PathAwareValue {
    match kind {
        V_NULL => PathAwareValue::Null(p()),
        V_INT => PathAwareValue::Int((p(), kani::any())),
        V_FLOAT => PathAwareValue::Float((p(), kani::any())),
        V_BOOL => PathAwareValue::Bool((p(), kani::any())),
        V_STR_EMPTY => PathAwareValue::String((p(), String::new())),
        V_STR_X => {
            let mut s = String::new();
            let c: char = kani::any();
            kani::assume((c as u32) < 0x80);
            s.push(c);
            PathAwareValue::String((p(), s))
        }
        V_LIST_EMPTY => PathAwareValue::List((p(), Vec::new())),
        V_LIST_1 => {
            let mut v = Vec::with_capacity(1);
            v.push(PathAwareValue::Int((p(), kani::any())));
            PathAwareValue::List((p(), v))
        }
        V_MAP_EMPTY => PathAwareValue::Map((
            p(),
            MapValue { keys: Vec::new(), values: indexmap::IndexMap::with_hasher(crate::verif_stubs::random_state_stub()) },
        )),
        _ => PathAwareValue::Char((p(), kani::any())),
    }
}

pub(super) fn mk_qr(kind: u8, literal: bool) -> QueryResult {
    if kind == V_UNRESOLVED {
        QueryResult::UnResolved(UnResolved {
            traversed_to: Rc::new(PathAwareValue::Null(p())),
            remaining_query: String::new(),
            reason: None,
        })
    } else if literal {
        QueryResult::Literal(Rc::new(mk_value(kind)))
    } else {
        QueryResult::Resolved(Rc::new(mk_value(kind)))
    }
}

pub(super) const R_FALSE: u8 = 0;
pub(super) const R_TRUE: u8 = 1;
pub(super) const R_ERR: u8 = 2;
pub(super) fn ob(r: Result<bool>) -> u8 {
    let v = match &r {
        Ok(true) => R_TRUE,
        Ok(false) => R_FALSE,
        Err(_) => R_ERR,
    };
    forget(r);
    v
}
pub(super) fn neg(v: u8) -> u8 {
    match v {
        R_TRUE => R_FALSE,
        R_FALSE => R_TRUE,
        _ => R_ERR,
    }
}

