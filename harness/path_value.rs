//! target: guard/src/rules/path_value.rs
// K1 / K1x / K2 / K15a: the value-vs-value comparison kernel, executed symbolically.
// Child module of rules::path_value => has access to the private compare_values etc.
#![allow(unused_imports, dead_code)]
use super::*;
use std::mem::forget;

macro_rules! proof {
    ($name:ident, $unwind:literal, $body:block) => {
        #[kani::proof]
        #[kani::unwind($unwind)]
        #[kani::stub(std::fmt::format, crate::verif_stubs::format_stub)]
        #[kani::stub(std::rc::Rc::drop_slow, crate::verif_stubs::rc_drop_slow_stub)]
        #[kani::stub(fancy_regex::Regex::new, crate::verif_stubs::regex_new_stub)]
        #[kani::stub(fancy_regex::Regex::is_match, crate::verif_stubs::regex_is_match_stub)]
        #[kani::stub(core::ptr::drop_in_place, crate::verif_stubs::drop_in_place_stub)]
        fn $name() $body
    };
}

fn p() -> Path {
    Path(String::new(), Location { line: 0, col: 0 })
}

// outcome of a comparison, inspected by reference; the Result is leaked (Error drop glue is a
// solver time sink and irrelevant to the property)
const F: u8 = 0;
const T: u8 = 1;
const NC: u8 = 2; // Err(NotComparable)
const OTHER: u8 = 3; // any other error
fn out(r: std::result::Result<bool, Error>) -> u8 {
    let v = match &r {
        Ok(true) => T,
        Ok(false) => F,
        Err(Error::NotComparable(_)) => NC,
        Err(_) => OTHER,
    };
    forget(r);
    v
}

fn b(x: bool) -> u8 {
    if x { T } else { F }
}

struct Six {
    lt: u8,
    le: u8,
    gt: u8,
    ge: u8,
    eq: u8,
    eq_rev: u8,
    peq: bool,
    peq_rev: bool,
}

fn six(x: &PathAwareValue, y: &PathAwareValue) -> Six {
    Six {
        lt: out(compare_lt(x, y)),
        le: out(compare_le(x, y)),
        gt: out(compare_gt(x, y)),
        ge: out(compare_ge(x, y)),
        eq: out(compare_eq(x, y)),
        eq_rev: out(compare_eq(y, x)),
        peq: x == y,
        peq_rev: y == x,
    }
}

/// the algebra demanded by C13 for one ordered pair whose reference order is (less, equal, greater)
fn assert_ordered(s: &Six, less: bool, equal: bool, greater: bool) {
    assert!(s.lt == b(less));
    assert!(s.gt == b(greater));
    assert!(s.eq == b(equal));
    assert!(s.le == b(less || equal));
    assert!(s.ge == b(greater || equal));
    // exactly one of <, ==, >
    assert!((s.lt == T) as u8 + (s.eq == T) as u8 + (s.gt == T) as u8 == 1);
    // symmetry of == (both entry points)
    assert!(s.eq_rev == s.eq);
    assert!(s.peq == equal);
    assert!(s.peq_rev == equal);
}

//@ k1_int props=C13,C01,C08:t,C19 tier=quick expect=pass fns=compare_values,compare_lt,compare_le,compare_gt,compare_ge,compare_eq,PathAwareValue::eq :: Int x Int, both payloads any i64 (2^128 pairs): trichotomy, <=/>= decomposition, numeric order, == symmetric via compare_eq and PartialEq
proof!(k1_int, 2, {
    let a: i64 = kani::any();
    let c: i64 = kani::any();
    let x = PathAwareValue::Int((p(), a));
    let y = PathAwareValue::Int((p(), c));
    let s = six(&x, &y);
    assert_ordered(&s, a < c, a == c, a > c);
    let r = out(compare_eq(&x, &x));
    assert!(r == T);
    kani::cover!(a < c);
    kani::cover!(a == c);
    kani::cover!(a > c);
    forget(x);
    forget(y);
});

//@ k1_float props=C13,C01:t,C08:t,C19 tier=quick expect=pass fns=compare_values,compare_lt,compare_le,compare_gt,compare_ge,compare_eq,PathAwareValue::eq :: Float x Float, both any f64 bit pattern incl. +-0, inf, NaN: non-NaN pairs obey the ordered algebra with IEEE order; any NaN => every operator is NotComparable and PartialEq is false
proof!(k1_float, 2, {
    let a: f64 = kani::any();
    let c: f64 = kani::any();
    let x = PathAwareValue::Float((p(), a));
    let y = PathAwareValue::Float((p(), c));
    let s = six(&x, &y);
    if a.is_nan() || c.is_nan() {
        assert!(s.lt == NC && s.le == NC && s.gt == NC && s.ge == NC && s.eq == NC && s.eq_rev == NC);
        assert!(!s.peq && !s.peq_rev);
    } else {
        assert_ordered(&s, a < c, a == c, a > c);
    }
    kani::cover!(a.is_nan());
    kani::cover!(a == 0.0 && c == 0.0 && a.is_sign_negative() && c.is_sign_positive());
    kani::cover!(a < c);
    kani::cover!(a > c && c.is_infinite());
    forget(x);
    forget(y);
});

//@ k1_float_total props=C08,C13 tier=quick expect=pass fns=compare_values :: compare_values on Float x Float, both any f64 bit pattern: never panics; Ok(IEEE order) for ordered pairs, Err(NotComparable) iff one side is NaN (a NaN reaches it from a YAML `.nan` scalar)
proof!(k1_float_total, 2, {
    let a: f64 = kani::any();
    let c: f64 = kani::any();
    let x = PathAwareValue::Float((p(), a));
    let y = PathAwareValue::Float((p(), c));
    let r = compare_values(&x, &y);
    match &r {
        Ok(o) => {
            assert!(!a.is_nan() && !c.is_nan());
            assert!((*o == Ordering::Less) == (a < c));
            assert!((*o == Ordering::Equal) == (a == c));
            assert!((*o == Ordering::Greater) == (a > c));
        }
        Err(Error::NotComparable(_)) => assert!(a.is_nan() || c.is_nan()),
        Err(_) => assert!(false, "unexpected error kind"),
    }
    kani::cover!(a.is_nan() && !c.is_nan());
    kani::cover!(a < c);
    forget(r);
    forget(x);
    forget(y);
});

//@ k1_char props=C13,C08:t tier=quick expect=pass fns=compare_values,compare_lt,compare_le,compare_gt,compare_ge,compare_eq :: Char x Char, any two chars: ordered algebra with code-point order
proof!(k1_char, 2, {
    let a: char = kani::any();
    let c: char = kani::any();
    let x = PathAwareValue::Char((p(), a));
    let y = PathAwareValue::Char((p(), c));
    let s = six(&x, &y);
    assert_ordered(&s, (a as u32) < (c as u32), a as u32 == c as u32, (a as u32) > (c as u32));
    kani::cover!(a < c);
    forget(x);
    forget(y);
});

//@ k1_bool_null props=C13,C08:t tier=quick expect=pass fns=compare_values,compare_eq,compare_lt,compare_le,compare_gt,compare_ge :: Bool x Bool (any): == iff same truth value, symmetric; the four ordering operators never hold on bools (unordered type). Null x Null: == holds, < and > do not.
proof!(k1_bool_null, 2, {
    let a: bool = kani::any();
    let c: bool = kani::any();
    let x = PathAwareValue::Bool((p(), a));
    let y = PathAwareValue::Bool((p(), c));
    let s = six(&x, &y);
    assert!(s.eq == b(a == c) && s.eq_rev == s.eq && s.peq == (a == c) && s.peq_rev == (a == c));
    assert!(s.lt != T && s.le != T && s.gt != T && s.ge != T);
    let n1 = PathAwareValue::Null(p());
    let n2 = PathAwareValue::Null(p());
    let t = six(&n1, &n2);
    assert!(t.eq == T && t.eq_rev == T && t.peq && t.lt != T && t.gt != T);
    kani::cover!(a != c);
    forget(x);
    forget(y);
    forget(n1);
    forget(n2);
});

// ---- strings: concrete lengths, symbolic characters ------------------------------------------
fn sym_char(two_byte_ok: bool) -> char {
    let c: char = kani::any();
    if two_byte_ok {
        kani::assume((c as u32) < 0x800);
    } else {
        kani::assume((c as u32) < 0x80);
    }
    c
}

fn build(cs: &[char]) -> String {
    let mut s = String::new();
    let mut i = 0;
    while i < cs.len() {
        s.push(cs[i]);
        i += 1;
    }
    s
}

/// reference: lexicographic order over code points, shorter prefix first (documented
/// "lexicographic"; for UTF-8 this coincides with byte order)
fn lex(a: &[char], c: &[char]) -> std::cmp::Ordering {
    let mut i = 0;
    while i < a.len() && i < c.len() {
        if (a[i] as u32) < (c[i] as u32) {
            return std::cmp::Ordering::Less;
        }
        if (a[i] as u32) > (c[i] as u32) {
            return std::cmp::Ordering::Greater;
        }
        i += 1;
    }
    if a.len() < c.len() {
        std::cmp::Ordering::Less
    } else if a.len() > c.len() {
        std::cmp::Ordering::Greater
    } else {
        std::cmp::Ordering::Equal
    }
}

macro_rules! k1_str {
    ($name:ident, $la:literal, $lb:literal, $wide:literal, $unwind:literal) => {
        proof!($name, $unwind, {
            let mut ca = ['a'; $la];
            let mut cb = ['a'; $lb];
            let mut i = 0;
            while i < $la {
                ca[i] = sym_char($wide);
                i += 1;
            }
            let mut j = 0;
            while j < $lb {
                cb[j] = sym_char($wide);
                j += 1;
            }
            let x = PathAwareValue::String((p(), build(&ca)));
            let y = PathAwareValue::String((p(), build(&cb)));
            let s = six(&x, &y);
            let o = lex(&ca, &cb);
            assert_ordered(
                &s,
                o == std::cmp::Ordering::Less,
                o == std::cmp::Ordering::Equal,
                o == std::cmp::Ordering::Greater,
            );
            kani::cover!(s.lt == T || !($la <= $lb && $lb > 0));
            kani::cover!(s.gt == T || !($lb <= $la && $la > 0));
            kani::cover!(s.eq == T || $la != $lb);
            forget(x);
            forget(y);
        });
    };
}

//@ k1_str_0_0 props=C13,C08:t tier=quick expect=pass fns=compare_values,compare_eq,compare_lt,compare_le,compare_gt,compare_ge :: String x String lengths 0,0: "" == ""
k1_str!(k1_str_0_0, 0, 0, false, 6);
//@ k1_str_0_1 props=C13,C08:t tier=quick expect=pass fns=compare_values,compare_eq,compare_lt,compare_le,compare_gt,compare_ge :: String x String lengths 0,1 (any 1-2 byte char): "" < s
k1_str!(k1_str_0_1, 0, 1, true, 6);
//@ k1_str_1_1 props=C13,C08:t tier=quick expect=pass fns=compare_values,compare_eq,compare_lt,compare_le,compare_gt,compare_ge :: String x String 1 char each, chars any code point < 0x800 (1-2 byte UTF-8): ordered algebra vs code-point lexicographic reference
k1_str!(k1_str_1_1, 1, 1, true, 8);
//@ k1_str_1_2 props=C13,C08:t tier=quick expect=pass fns=compare_values,compare_eq,compare_lt,compare_le,compare_gt,compare_ge :: String x String lengths 1,2 ASCII symbolic: prefix pairs ("a" < "ab")
k1_str!(k1_str_1_2, 1, 2, false, 8);
//@ k1_str_2_1 props=C13,C08:t tier=quick expect=pass fns=compare_values,compare_eq,compare_lt,compare_le,compare_gt,compare_ge :: String x String lengths 2,1 ASCII symbolic
k1_str!(k1_str_2_1, 2, 1, false, 8);
//@ k1_str_2_2 props=C13,C08:t tier=quick expect=pass fns=compare_values,compare_eq,compare_lt,compare_le,compare_gt,compare_ge :: String x String 2 ASCII chars each, symbolic
k1_str!(k1_str_2_2, 2, 2, false, 8);
//@ k1_str_2_2w props=C13,C08:t tier=thorough expect=pass fns=compare_values,compare_eq,compare_lt,compare_le,compare_gt,compare_ge :: String x String 2 chars each, any code point < 0x800
k1_str!(k1_str_2_2w, 2, 2, true, 10);
//@ k1_str_3_3 props=C13,C08:t tier=thorough expect=pass fns=compare_values,compare_eq,compare_lt,compare_le,compare_gt,compare_ge :: String x String 3 ASCII chars each, symbolic
k1_str!(k1_str_3_3, 3, 3, false, 10);
//@ k1_str_2_3 props=C13,C08:t tier=thorough expect=pass fns=compare_values,compare_eq,compare_lt,compare_le,compare_gt,compare_ge :: String x String lengths 2,3 ASCII symbolic
k1_str!(k1_str_2_3, 2, 3, false, 10);
//@ k1_str_3_1 props=C13,C08:t tier=thorough expect=pass fns=compare_values,compare_eq,compare_lt,compare_le,compare_gt,compare_ge :: String x String lengths 3,1 ASCII symbolic
k1_str!(k1_str_3_1, 3, 1, false, 10);

// ---- cross-kind: kinds concrete per instance, payloads symbolic ----------------------------------
const K_NULL: u8 = 0;
const K_INT: u8 = 1;
const K_FLOAT: u8 = 2;
const K_BOOL: u8 = 3;
const K_STR: u8 = 4;
const K_CHAR: u8 = 5;

fn mk(kind: u8) -> PathAwareValue {
    match kind {
        K_NULL => PathAwareValue::Null(p()),
        K_INT => PathAwareValue::Int((p(), kani::any())),
        K_FLOAT => PathAwareValue::Float((p(), kani::any())),
        K_BOOL => PathAwareValue::Bool((p(), kani::any())),
        K_STR => {
            let c = sym_char(false);
            PathAwareValue::String((p(), build(&[c])))
        }
        _ => PathAwareValue::Char((p(), kani::any())),
    }
}

macro_rules! k1x {
    ($name:ident, $ka:expr, $kb:expr) => {
        proof!($name, 6, {
            let x = mk($ka);
            let y = mk($kb);
            let s = six(&x, &y);
            // values of different kinds never satisfy ==, <, <=, >, >= ; and they are reported
            // as not comparable (so that `!=` does not silently hold either: operators.rs keeps
            // NotComparable as FAIL under negation)
            assert!(s.eq == NC && s.eq_rev == NC);
            assert!(s.lt == NC && s.le == NC && s.gt == NC && s.ge == NC);
            assert!(!s.peq && !s.peq_rev);
            forget(x);
            forget(y);
        });
    };
}

//@ k1x_null_int props=C13,C08:t tier=thorough expect=pass fns=compare_values,compare_eq,PathAwareValue::eq :: cross-kind Null vs Int (payload any): no operator holds, all report NotComparable
k1x!(k1x_null_int, K_NULL, K_INT);
//@ k1x_null_float props=C13,C08:t tier=thorough expect=pass fns=compare_values,compare_eq,PathAwareValue::eq :: cross-kind Null vs Float
k1x!(k1x_null_float, K_NULL, K_FLOAT);
//@ k1x_null_bool props=C13,C08:t tier=thorough expect=pass fns=compare_values,compare_eq,PathAwareValue::eq :: cross-kind Null vs Bool
k1x!(k1x_null_bool, K_NULL, K_BOOL);
//@ k1x_null_str props=C13,C08:t tier=quick expect=pass fns=compare_values,compare_eq,PathAwareValue::eq :: cross-kind Null vs String
k1x!(k1x_null_str, K_NULL, K_STR);
//@ k1x_null_char props=C13,C08:t tier=thorough expect=pass fns=compare_values,compare_eq,PathAwareValue::eq :: cross-kind Null vs Char
k1x!(k1x_null_char, K_NULL, K_CHAR);
//@ k1x_int_float props=C13,C08:t,C19 tier=quick expect=pass fns=compare_values,compare_eq,PathAwareValue::eq :: cross-kind Int vs Float (1 vs 1.0 included): not comparable
k1x!(k1x_int_float, K_INT, K_FLOAT);
//@ k1x_int_bool props=C13,C08:t tier=thorough expect=pass fns=compare_values,compare_eq,PathAwareValue::eq :: cross-kind Int vs Bool
k1x!(k1x_int_bool, K_INT, K_BOOL);
//@ k1x_int_str props=C13,C08:t tier=quick expect=pass fns=compare_values,compare_eq,PathAwareValue::eq :: cross-kind Int vs String
k1x!(k1x_int_str, K_INT, K_STR);
//@ k1x_int_char props=C13,C08:t tier=thorough expect=pass fns=compare_values,compare_eq,PathAwareValue::eq :: cross-kind Int vs Char
k1x!(k1x_int_char, K_INT, K_CHAR);
//@ k1x_float_bool props=C13,C08:t tier=quick expect=pass fns=compare_values,compare_eq,PathAwareValue::eq :: cross-kind Float vs Bool
k1x!(k1x_float_bool, K_FLOAT, K_BOOL);
//@ k1x_float_str props=C13,C08:t tier=thorough expect=pass fns=compare_values,compare_eq,PathAwareValue::eq :: cross-kind Float vs String
k1x!(k1x_float_str, K_FLOAT, K_STR);
//@ k1x_float_char props=C13,C08:t tier=thorough expect=pass fns=compare_values,compare_eq,PathAwareValue::eq :: cross-kind Float vs Char
k1x!(k1x_float_char, K_FLOAT, K_CHAR);
//@ k1x_bool_str props=C13,C08:t tier=quick expect=pass fns=compare_values,compare_eq,PathAwareValue::eq :: cross-kind Bool vs String
k1x!(k1x_bool_str, K_BOOL, K_STR);
//@ k1x_bool_char props=C13,C08:t tier=thorough expect=pass fns=compare_values,compare_eq,PathAwareValue::eq :: cross-kind Bool vs Char
k1x!(k1x_bool_char, K_BOOL, K_CHAR);
//@ k1x_str_char props=C13,C08:t tier=quick expect=pass fns=compare_values,compare_eq,PathAwareValue::eq :: cross-kind String vs Char ("a" vs 'a')
k1x!(k1x_str_char, K_STR, K_CHAR);
// (six() evaluates both argument orders for ==; the ordering operators in the reverse direction:)
//@ k1x_float_int props=C13,C08:t tier=thorough expect=pass fns=compare_values,compare_eq,PathAwareValue::eq :: cross-kind Float vs Int (reverse order)
k1x!(k1x_float_int, K_FLOAT, K_INT);
//@ k1x_str_int props=C13,C08:t tier=thorough expect=pass fns=compare_values,compare_eq,PathAwareValue::eq :: cross-kind String vs Int (reverse order)
k1x!(k1x_str_int, K_STR, K_INT);
//@ k1x_bool_int props=C13,C08:t tier=thorough expect=pass fns=compare_values,compare_eq,PathAwareValue::eq :: cross-kind Bool vs Int (reverse order)
k1x!(k1x_bool_int, K_BOOL, K_INT);
//@ k1x_char_str props=C13,C08:t tier=thorough expect=pass fns=compare_values,compare_eq,PathAwareValue::eq :: cross-kind Char vs String (reverse order)
k1x!(k1x_char_str, K_CHAR, K_STR);
//@ k1x_str_null props=C13,C08:t tier=thorough expect=pass fns=compare_values,compare_eq,PathAwareValue::eq :: cross-kind String vs Null (reverse order)
k1x!(k1x_str_null, K_STR, K_NULL);
//@ k1x_int_null props=C13,C08:t tier=thorough expect=pass fns=compare_values,compare_eq,PathAwareValue::eq :: cross-kind Int vs Null (reverse order)
k1x!(k1x_int_null, K_INT, K_NULL);

// ---- ranges -----------------------------------------------------------------------------------
//@ k2_range_int props=C13,C01,C08:t tier=quick expect=pass fns=is_within,compare_eq,PathAwareValue::eq :: Int in r[lo,hi] / r(lo,hi) / r[lo,hi) / r(lo,hi]: value, lo, hi any i64, `inclusive` any u8 (only bits 0,1 matter): membership <=> the two bound comparisons of the bracket form; same answer from WithinRange::is_within, compare_eq and PartialEq
proof!(k2_range_int, 2, {
    let v: i64 = kani::any();
    let lo: i64 = kani::any();
    let hi: i64 = kani::any();
    let inc: u8 = kani::any();
    let lower_ok = if inc & 1 != 0 { lo <= v } else { lo < v };
    let upper_ok = if inc & 2 != 0 { v <= hi } else { v < hi };
    let expect = lower_ok && upper_ok;
    let r = RangeType { upper: hi, lower: lo, inclusive: inc };
    assert!(v.is_within(&r) == expect);
    let x = PathAwareValue::Int((p(), v));
    let y = PathAwareValue::RangeInt((p(), r));
    assert!(out(compare_eq(&x, &y)) == b(expect));
    assert!((x == y) == expect);
    // a range is not ordered against a scalar
    assert!(out(compare_lt(&x, &y)) == NC && out(compare_ge(&x, &y)) == NC);
    kani::cover!(expect && v == lo);
    kani::cover!(!expect && v == lo);
    kani::cover!(expect && v == hi);
    kani::cover!(!expect && v == hi);
    kani::cover!(inc > 3 && expect);
    forget(x);
    forget(y);
});

//@ k2_range_float props=C13,C08:t tier=quick expect=pass fns=is_within,compare_eq,PathAwareValue::eq :: Float in range: value, lo, hi any f64 (NaN => not a member), inclusive any u8: membership <=> bound comparisons
proof!(k2_range_float, 2, {
    let v: f64 = kani::any();
    let lo: f64 = kani::any();
    let hi: f64 = kani::any();
    let inc: u8 = kani::any();
    let lower_ok = if inc & 1 != 0 { lo <= v } else { lo < v };
    let upper_ok = if inc & 2 != 0 { v <= hi } else { v < hi };
    let expect = lower_ok && upper_ok;
    let r = RangeType { upper: hi, lower: lo, inclusive: inc };
    assert!(v.is_within(&r) == expect);
    let x = PathAwareValue::Float((p(), v));
    let y = PathAwareValue::RangeFloat((p(), r));
    assert!(out(compare_eq(&x, &y)) == b(expect));
    assert!((x == y) == expect);
    if v.is_nan() || lo.is_nan() || hi.is_nan() {
        assert!(!expect);
    }
    kani::cover!(expect && v == lo);
    kani::cover!(!expect && v == hi);
    kani::cover!(v.is_nan());
    forget(x);
    forget(y);
});

//@ k2_range_char props=C13,C08:t tier=quick expect=pass fns=is_within,compare_eq,PathAwareValue::eq :: Char in range: any chars, inclusive any u8
proof!(k2_range_char, 2, {
    let v: char = kani::any();
    let lo: char = kani::any();
    let hi: char = kani::any();
    let inc: u8 = kani::any();
    let (vv, l, h) = (v as u32, lo as u32, hi as u32);
    let lower_ok = if inc & 1 != 0 { l <= vv } else { l < vv };
    let upper_ok = if inc & 2 != 0 { vv <= h } else { vv < h };
    let expect = lower_ok && upper_ok;
    let r = RangeType { upper: hi, lower: lo, inclusive: inc };
    assert!(v.is_within(&r) == expect);
    let x = PathAwareValue::Char((p(), v));
    let y = PathAwareValue::RangeChar((p(), r));
    assert!(out(compare_eq(&x, &y)) == b(expect));
    kani::cover!(expect);
    kani::cover!(!expect);
    forget(x);
    forget(y);
});

//@ k1_twin props=C13,C01,C08:t,C19 tier=quick expect=fail fns=compare_values :: vacuity twin for the comparison family: same construction as k1_int, final assert(false) must be reached
proof!(k1_twin, 2, {
    let a: i64 = kani::any();
    let c: i64 = kani::any();
    let x = PathAwareValue::Int((p(), a));
    let y = PathAwareValue::Int((p(), c));
    let s = six(&x, &y);
    assert_ordered(&s, a < c, a == c, a > c);
    forget(x);
    forget(y);
    assert!(false, "twin-reached");
});

// ---- K15a: index arithmetic of the legacy traversal ---------------------------------------------
fn int_list(n: usize) -> Vec<PathAwareValue> {
    let mut v = Vec::with_capacity(2);
    let mut i = 0;
    while i < n {
        v.push(PathAwareValue::Int((p(), i as i64)));
        i += 1;
    }
    v
}

macro_rules! k15a {
    ($name:ident, $n:literal) => {
        proof!($name, 4, {
            let idx: i32 = kani::any();
            let list = int_list($n);
            let parent = PathAwareValue::Null(p());
            let r = PathAwareValue::retrieve_index(&parent, idx, &list, &[]);
            // documented: [n] selects element n; (a negative n is taken by magnitude);
            // out of range is a retrieval error, never a panic
            let mag: i64 = if idx >= 0 { idx as i64 } else { -(idx as i64) };
            match &r {
                Ok(PathAwareValue::Int((_, v))) => assert!(mag < $n && *v == mag),
                Ok(_) => assert!(false),
                Err(Error::RetrievalError(_)) => assert!(mag >= $n),
                Err(_) => assert!(false),
            }
            kani::cover!(r.is_err());
            kani::cover!(idx == i32::MIN);
            forget(r);
            forget(list);
            forget(parent);
        });
    };
}
//@ k15a_index_n0 props=C08 tier=quick expect=pass fns=PathAwareValue::retrieve_index :: legacy-traversal list index, list length 0, index any i32 (incl. i32::MIN): no overflow/panic, out of range => RetrievalError
k15a!(k15a_index_n0, 0);
//@ k15a_index_n2 props=C08 tier=quick expect=pass fns=PathAwareValue::retrieve_index :: legacy-traversal list index, list length 2, index any i32: element |i| or RetrievalError, never a panic
k15a!(k15a_index_n2, 2);
