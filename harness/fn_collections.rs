//! target: guard/src/rules/functions/collections.rs
// K16(count)
#![allow(unused_imports, dead_code, unused_variables)]
use super::*;
use crate::rules::path_value::Location;
use crate::rules::UnResolved;
use std::mem::forget;
use std::rc::Rc;

macro_rules! proof {
    ($name:ident, $unwind:literal, $body:block) => {
        #[kani::proof]
        #[kani::unwind($unwind)]
        #[kani::stub(std::fmt::format, crate::verif_stubs::format_stub)]
        #[kani::stub(std::rc::Rc::drop_slow, crate::verif_stubs::rc_drop_slow_stub)]
        #[kani::stub(core::ptr::drop_in_place, crate::verif_stubs::drop_in_place_stub)]
        fn $name() $body
    };
}

fn p() -> Path {
    Path(String::new(), Location { line: 0, col: 0 })
}

fn entry(kind: u8) -> QueryResult {
    match kind {
        0 => QueryResult::Resolved(Rc::new(PathAwareValue::Int((p(), kani::any())))),
        1 => QueryResult::Literal(Rc::new(PathAwareValue::Bool((p(), kani::any())))),
        2 => QueryResult::Resolved(Rc::new(PathAwareValue::Null(p()))),
        _ => QueryResult::UnResolved(UnResolved {
            traversed_to: Rc::new(PathAwareValue::Null(p())),
            remaining_query: String::new(),
            reason: None,
        }),
    }
}

macro_rules! k16_count {
    ($name:ident, $n:literal, $unwind:literal) => {
        proof!($name, $unwind, {
            let mut args = Vec::with_capacity($n);
            let mut resolved = 0i64;
            let mut i = 0;
            while i < $n {
                let k: u8 = kani::any();
                kani::assume(k < 4);
                if k != 3 {
                    resolved += 1;
                }
                args.push(entry(k));
                i += 1;
            }
            let r = count(&args);
            match &r {
                PathAwareValue::Int((_, c)) => assert!(*c == resolved),
                _ => assert!(false),
            }
            kani::cover!(resolved == 0);
            kani::cover!(resolved == $n);
            forget(r);
            forget(args);
        });
    };
}
//@ k16_count_0 props=C18 tier=quick expect=pass fns=count :: count of an empty selection = 0
k16_count!(k16_count_0, 0, 4);
//@ k16_count_2 props=C18 tier=quick expect=pass fns=count :: count over 2 entries of symbolic kind (resolved Int / literal Bool / resolved Null / unresolved): = number of resolved entries
k16_count!(k16_count_2, 2, 5);
//@ k16_count_3 props=C18 tier=thorough expect=pass fns=count :: count over 3 entries of symbolic kind
k16_count!(k16_count_3, 3, 6);
//@ k16_count_twin props=C18 tier=quick expect=fail fns=count :: vacuity twin
proof!(k16_count_twin, 4, {
    let mut args = Vec::with_capacity(1);
    args.push(entry(0));
    let r = count(&args);
    forget(r);
    forget(args);
    assert!(false, "twin-reached");
});
