//! target: guard/src/rules/path_value.rs
// K24: == on lists (element-wise, in order) - probes; lists of 0..2 integers with symbolic content.
#![allow(unused_imports, dead_code)]
use super::*;
use std::mem::forget;

macro_rules! proof {
    ($name:ident, $unwind:literal, $body:block) => {
        #[kani::proof]
        #[kani::unwind($unwind)]
        #[kani::stub(std::fmt::format, crate::verif_stubs::format_stub)]
        #[kani::stub(std::rc::Rc::drop_slow, crate::verif_stubs::rc_drop_slow_stub)]
        #[kani::stub(fancy_regex::Regex::new, crate::verif_stubs::regex_new_stub)]
        #[kani::stub(fancy_regex::Regex::is_match, crate::verif_stubs::regex_is_match_stub)]
        #[kani::stub(core::ptr::drop_in_place, crate::verif_stubs::drop_in_place_stub)]
        fn $name() $body
    };
}

fn p() -> Path {
    Path(String::new(), Location { line: 0, col: 0 })
}

fn list_of(v: &[i64]) -> PathAwareValue {
    let mut l = Vec::with_capacity(2);
    let mut i = 0;
    while i < v.len() {
        l.push(PathAwareValue::Int((p(), v[i])));
        i += 1;
    }
    PathAwareValue::List((p(), l))
}

fn eq_of(x: &PathAwareValue, y: &PathAwareValue) -> u8 {
    let r = compare_eq(x, y);
    let v = match &r {
        Ok(true) => 1,
        Ok(false) => 0,
        Err(_) => 2,
    };
    forget(r);
    v
}

macro_rules! k24 {
    ($name:ident, $la:literal, $lb:literal, $unwind:literal) => {
        proof!($name, $unwind, {
            let a: [i64; $la] = kani::any();
            let b: [i64; $lb] = kani::any();
            let x = list_of(&a);
            let y = list_of(&b);
            let mut same = $la == $lb;
            let mut i = 0;
            while i < $la && i < $lb {
                if a[i] != b[i] {
                    same = false;
                }
                i += 1;
            }
            let e1 = eq_of(&x, &y);
            let e2 = eq_of(&y, &x);
            assert!(e1 == same as u8);
            assert!(e2 == e1);
            assert!(eq_of(&x, &x) == 1);
            kani::cover!(same || $la != $lb || $la == 0);
            forget(x);
            forget(y);
        });
    };
}
//@ k24_list_0_0 props=C13 tier=probe expect=pass fns=compare_eq :: [] == []: equal; reflexive, symmetric
k24!(k24_list_0_0, 0, 0, 4);
//@ k24_list_1_1 props=C13 tier=probe expect=pass fns=compare_eq :: [a] == [b] for all i64 a, b: equal iff a == b; reflexive, symmetric
k24!(k24_list_1_1, 1, 1, 4);
//@ k24_list_1_0 props=C13 tier=probe expect=pass fns=compare_eq :: [a] == []: never equal (length differs)
k24!(k24_list_1_0, 1, 0, 4);
//@ k24_list_2_2 props=C13 tier=probe expect=pass fns=compare_eq :: [a1, a2] == [b1, b2]: equal iff element-wise equal IN ORDER
k24!(k24_list_2_2, 2, 2, 5);
//@ k24_list_2_1 props=C13 tier=probe expect=pass fns=compare_eq :: [a1, a2] == [b1]: never equal
k24!(k24_list_2_1, 2, 1, 5);

//@ k24_twin props=C13 tier=probe expect=fail fns=compare_eq :: vacuity twin of the list family
proof!(k24_twin, 4, {
    let x = list_of(&[kani::any()]);
    let y = list_of(&[kani::any()]);
    let _ = eq_of(&x, &y);
    forget(x);
    forget(y);
    assert!(false, "twin-reached");
});
