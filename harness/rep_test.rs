//! target: guard/src/commands/reporters/test/mod.rs
// K12: expectation matching of `cfn-guard test`
#![allow(unused_imports, dead_code, unused_variables)]
use super::*;
use std::mem::forget;

macro_rules! proof {
    ($name:ident, $unwind:literal, $body:block) => {
        #[kani::proof]
        #[kani::unwind($unwind)]
        #[kani::stub(std::fmt::format, crate::verif_stubs::format_stub)]
        #[kani::stub(core::ptr::drop_in_place, crate::verif_stubs::drop_in_place_stub)]
        fn $name() $body
    };
}

fn any_status() -> Status {
    let s: u8 = kani::any();
    kani::assume(s < 3);
    match s {
        0 => Status::PASS,
        1 => Status::FAIL,
        _ => Status::SKIP,
    }
}

macro_rules! k12 {
    ($name:ident, $n:literal, $unwind:literal) => {
        proof!($name, $unwind, {
            let expected = any_status();
            let mut got = [Status::SKIP; $n];
            let mut recs: [Option<RecordType<'static>>; $n] = Default::default();
            let mut i = 0;
            while i < $n {
                got[i] = any_status();
                recs[i] = Some(RecordType::RuleCheck(NamedStatus { name: "r", status: got[i], message: None }));
                i += 1;
            }
            let mut v: Vec<&Option<RecordType<'_>>> = Vec::with_capacity($n);
            let mut i = 0;
            while i < $n {
                v.push(&recs[i]);
                i += 1;
            }
            let (res, _statuses) = get_status_result(expected, v);
            // documented: met iff some definition has the expected non-SKIP status,
            // or all definitions are SKIP when SKIP is expected
            let mut some_has = false;
            let mut all_skip = true;
            let mut i = 0;
            while i < $n {
                if got[i] == expected {
                    some_has = true;
                }
                if got[i] != Status::SKIP {
                    all_skip = false;
                }
                i += 1;
            }
            let met = if expected == Status::SKIP { all_skip } else { some_has };
            match res {
                Some(s) => assert!(met && s == expected),
                None => assert!(!met),
            }
            kani::cover!(res.is_some() && expected == Status::SKIP);
            kani::cover!(res.is_none() && expected == Status::SKIP);
            kani::cover!(res.is_some() && expected == Status::FAIL);
            kani::cover!(res.is_none() && expected == Status::PASS);
            forget(_statuses);
        });
    };
}
//@ k12_expect_1 props=C16,C06 tier=quick expect=pass fns=get_status_result :: test expectation matching, 1 rule definition, expected and evaluated statuses symbolic: met iff equal
k12!(k12_expect_1, 1, 4);
//@ k12_expect_2 props=C16,C06 tier=quick expect=pass fns=get_status_result :: test expectation matching, 2 definitions of the rule: met iff some definition has the expected non-SKIP status, or all are SKIP when SKIP is expected
k12!(k12_expect_2, 2, 5);
//@ k12_expect_3 props=C16,C06 tier=quick expect=pass fns=get_status_result :: test expectation matching, 3 definitions
k12!(k12_expect_3, 3, 6);

//@ k12_twin props=C16,C06 tier=quick expect=fail fns=get_status_result :: vacuity twin
proof!(k12_twin, 4, {
    let rec = Some(RecordType::RuleCheck(NamedStatus { name: "r", status: any_status(), message: None }));
    let mut v: Vec<&Option<RecordType<'_>>> = Vec::with_capacity(1);
    v.push(&rec);
    let (res, st) = get_status_result(any_status(), v);
    forget(st);
    assert!(false, "twin-reached");
});
