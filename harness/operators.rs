//! target: guard/src/rules/eval/operators.rs
// K17: the operator layer `(CmpOperator, bool)::compare` on scalar-vs-scalar inputs (probe: does not
// terminate without the drop_in_place stub; re-probed with it).
#![allow(unused_imports, dead_code, unused_variables)]
use super::*;
use crate::rules::path_value::{Location, Path};
use std::mem::forget;

macro_rules! proof {
    ($name:ident, $unwind:literal, $body:block) => {
        #[kani::proof]
        #[kani::unwind($unwind)]
        #[kani::stub(std::fmt::format, crate::verif_stubs::format_stub)]
        #[kani::stub(std::rc::Rc::drop_slow, crate::verif_stubs::rc_drop_slow_stub)]
        #[kani::stub(fancy_regex::Regex::new, crate::verif_stubs::regex_new_stub)]
        #[kani::stub(fancy_regex::Regex::is_match, crate::verif_stubs::regex_is_match_stub)]
        #[kani::stub(core::ptr::drop_in_place, crate::verif_stubs::drop_in_place_stub)]
        #[kani::stub(std::hash::RandomState::new, crate::verif_stubs::random_state_stub)]
        fn $name() $body
    };
}

fn p() -> Path {
    Path(String::new(), Location { line: 0, col: 0 })
}

const R_PASS: u8 = 0;
const R_FAIL: u8 = 1;
const R_NC: u8 = 2;
const R_LHS_UNRES: u8 = 3;
const R_RHS_UNRES: u8 = 4;
const R_OTHER: u8 = 5;

fn classify(v: &ValueEvalResult) -> u8 {
    match v {
        ValueEvalResult::LhsUnresolved(_) => R_LHS_UNRES,
        ValueEvalResult::ComparisonResult(ComparisonResult::Success(Compare::Value(_))) => R_PASS,
        ValueEvalResult::ComparisonResult(ComparisonResult::Fail(Compare::Value(_))) => R_FAIL,
        ValueEvalResult::ComparisonResult(ComparisonResult::NotComparable(_)) => R_NC,
        ValueEvalResult::ComparisonResult(ComparisonResult::RhsUnresolved(..)) => R_RHS_UNRES,
        _ => R_OTHER,
    }
}

fn doc(op: crate::rules::CmpOperator, l: i64, r: i64) -> bool {
    use crate::rules::CmpOperator::*;
    match op {
        Eq => l == r,
        Lt => l < r,
        Le => l <= r,
        Gt => l > r,
        _ => l >= r,
    }
}

macro_rules! k17 {
    ($name:ident, $op:expr, $rhs_literal:literal) => {
        proof!($name, 6, {
            let a: i64 = kani::any();
            let b: i64 = kani::any();
            let not_op: bool = kani::any();
            let mut lhs = Vec::with_capacity(1);
            lhs.push(QueryResult::Resolved(Rc::new(PathAwareValue::Int((p(), a)))));
            let mut rhs = Vec::with_capacity(1);
            if $rhs_literal {
                rhs.push(QueryResult::Literal(Rc::new(PathAwareValue::Int((p(), b)))));
            } else {
                rhs.push(QueryResult::Resolved(Rc::new(PathAwareValue::Int((p(), b)))));
            }
            let r = ($op, not_op).compare(&lhs, &rhs);
            match &r {
                Ok(EvalResult::Result(v)) => {
                    assert!(v.len() == 1);
                    let truth = doc($op, a, b) != not_op;
                    assert!(classify(&v[0]) == if truth { R_PASS } else { R_FAIL });
                }
                _ => assert!(false),
            }
            kani::cover!(not_op);
            forget(r);
            forget(lhs);
            forget(rhs);
        });
    };
}
//@ k17_eq_int_lit props=C03,C13,C01 tier=probe expect=pass fns=Comparator::compare,EqOperation::compare,match_value :: operator layer, `a ==/!= <literal b>`, both any i64: one result, Success iff (a == b) xor not
k17!(k17_eq_int_lit, crate::rules::CmpOperator::Eq, true);
//@ k17_lt_int_lit props=C03,C13,C01 tier=probe expect=pass fns=Comparator::compare,CommonOperator::compare,match_value :: operator layer, `a </!< <literal b>`
k17!(k17_lt_int_lit, crate::rules::CmpOperator::Lt, true);
//@ k17_eq_int_query props=C03,C13,C01 tier=probe expect=pass fns=Comparator::compare,EqOperation::compare :: operator layer, `a == <query value b>` (both resolved)
k17!(k17_eq_int_query, crate::rules::CmpOperator::Eq, false);
