//! target: guard/src/rules/functions/strings.rs
// K13 / K16(join): built-in string functions.
#![allow(unused_imports, dead_code, unused_variables)]
use super::*;
use crate::rules::path_value::Location;
use crate::rules::UnResolved;
use std::mem::forget;
use std::rc::Rc;

macro_rules! proof {
    ($name:ident, $unwind:literal, $body:block) => {
        #[kani::proof]
        #[kani::unwind($unwind)]
        #[kani::stub(std::fmt::format, crate::verif_stubs::format_stub)]
        #[kani::stub(std::rc::Rc::drop_slow, crate::verif_stubs::rc_drop_slow_stub)]
        #[kani::stub(core::ptr::drop_in_place, crate::verif_stubs::drop_in_place_stub)]
        fn $name() $body
    };
}

fn p() -> Path {
    Path(String::new(), Location { line: 0, col: 0 })
}

/// a symbolic char whose UTF-8 encoding has exactly `w` bytes
fn sym_char_w(w: usize) -> char {
    let c: char = kani::any();
    let v = c as u32;
    match w {
        1 => kani::assume(v < 0x80),
        2 => kani::assume(v >= 0x80 && v < 0x800),
        _ => kani::assume(v >= 0x800 && v < 0x10000),
    }
    c
}

macro_rules! k13 {
    ($name:ident, [$($w:literal),*], $bytes:literal, $unwind:literal) => {
        proof!($name, $unwind, {
            let widths: &[usize] = &[$($w),*];
            let mut s = String::new();
            let mut ascii = true;
            let mut i = 0;
            while i < widths.len() {
                s.push(sym_char_w(widths[i]));
                if widths[i] != 1 {
                    ascii = false;
                }
                i += 1;
            }
            let mut expect_bytes = [0u8; $bytes];
            let mut i = 0;
            while i < $bytes {
                expect_bytes[i] = s.as_bytes()[i];
                i += 1;
            }
            let from: usize = kani::any();
            let to: usize = kani::any();
            let mut args = Vec::with_capacity(1);
            args.push(QueryResult::Resolved(Rc::new(PathAwareValue::String((p(), s)))));
            // never panics (Kani's default checks), whatever the offsets / encoding
            let r = substring(&args, from, to);
            match &r {
                Ok(v) => {
                    assert!(v.len() == 1);
                    let in_range = $bytes > 0 && from < to && to <= $bytes;
                    match &v[0] {
                        Some(PathAwareValue::String((_, sub))) => {
                            // a result is only ever produced for usable offsets, and is the slice from..to
                            assert!(in_range);
                            assert!(sub.len() == to - from);
                            let mut k = 0;
                            while k < $bytes {
                                if k < sub.len() {
                                    assert!(sub.as_bytes()[k] == expect_bytes[from + k]);
                                }
                                k += 1;
                            }
                        }
                        Some(_) => assert!(false),
                        None => {
                            // ASCII strings with usable offsets are never skipped
                            assert!(!(ascii && in_range));
                        }
                    }
                }
                Err(_) => assert!(false),
            }
            kani::cover!(matches!(&r, Ok(v) if v[0].is_some()) || $bytes == 0);
            kani::cover!(matches!(&r, Ok(v) if v[0].is_none()));
            forget(r);
            forget(args);
        });
    };
}

//@ k13_sub_empty props=C18,C08:t tier=quick expect=pass fns=substring :: substring("", from, to), offsets any usize: skipped (None), no panic
k13!(k13_sub_empty, [], 0, 4);
//@ k13_sub_a1 props=C18,C08:t tier=quick expect=pass fns=substring :: substring on a 1-byte ASCII string (symbolic char), offsets any usize: Some(chars from..to) iff from<to<=len else skipped
k13!(k13_sub_a1, [1], 1, 5);
//@ k13_sub_a2 props=C18,C08 tier=quick expect=pass fns=substring :: substring on a 2-char ASCII string, offsets any usize
k13!(k13_sub_a2, [1, 1], 2, 6);
//@ k13_sub_a3 props=C18,C08:t tier=quick expect=pass fns=substring :: substring on a 3-char ASCII string, offsets any usize
k13!(k13_sub_a3, [1, 1, 1], 3, 7);
//@ k13_sub_w2 props=C18,C08 tier=quick expect=pass fns=substring :: substring on a single 2-byte char: no offset pair may panic (offset 1 is inside the character)
k13!(k13_sub_w2, [2], 2, 6);
//@ k13_sub_w2a props=C18,C08 tier=quick expect=pass fns=substring :: substring on 2-byte char + ASCII char (3 bytes): never panics; any result is the byte slice from..to
k13!(k13_sub_w2a, [2, 1], 3, 7);
//@ k13_sub_aw2 props=C18,C08 tier=thorough expect=pass fns=substring :: substring on ASCII char + 2-byte char (3 bytes)
k13!(k13_sub_aw2, [1, 2], 3, 7);
//@ k13_sub_w3 props=C18,C08 tier=thorough expect=pass fns=substring :: substring on a single 3-byte char
k13!(k13_sub_w3, [3], 3, 7);
//@ k13_sub_w2w2 props=C18,C08 tier=thorough expect=pass fns=substring :: substring on two 2-byte chars (4 bytes)
k13!(k13_sub_w2w2, [2, 2], 4, 8);

//@ k13_sub_kinds props=C18,C08 tier=quick expect=pass fns=substring :: substring over a 3-element argument list (Int any i64, UnResolved, Bool): element-wise, unsupported kinds and unresolved entries are skipped, length preserved
proof!(k13_sub_kinds, 6, {
    let mut args = Vec::with_capacity(3);
    args.push(QueryResult::Resolved(Rc::new(PathAwareValue::Int((p(), kani::any())))));
    args.push(QueryResult::UnResolved(UnResolved {
        traversed_to: Rc::new(PathAwareValue::Null(p())),
        remaining_query: String::new(),
        reason: None,
    }));
    args.push(QueryResult::Literal(Rc::new(PathAwareValue::Bool((p(), kani::any())))));
    let r = substring(&args, kani::any(), kani::any());
    match &r {
        Ok(v) => assert!(v.len() == 3 && v[0].is_none() && v[1].is_none() && v[2].is_none()),
        Err(_) => assert!(false),
    }
    kani::cover!(r.is_ok());
    forget(r);
    forget(args);
});

//@ k13_twin props=C18,C08 tier=quick expect=fail fns=substring :: vacuity twin of the substring family
proof!(k13_twin, 6, {
    let mut s = String::new();
    s.push(sym_char_w(1));
    s.push(sym_char_w(1));
    let mut args = Vec::with_capacity(1);
    args.push(QueryResult::Resolved(Rc::new(PathAwareValue::String((p(), s)))));
    let r = substring(&args, kani::any(), kani::any());
    assert!(r.is_ok());
    forget(r);
    forget(args);
    assert!(false, "twin-reached");
});

