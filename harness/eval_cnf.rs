//! target: guard/src/rules/eval.rs
//! requires: eval_common.rs
// K5 / K5p / K6: CNF combinator, order independence, named-rule clause.
#![allow(unused_imports, dead_code, unused_variables)]
use super::verif_eval_common::*;
use super::*;
use crate::rules::path_value::{Location, MapValue, Path};
use std::cell::Cell;
use std::mem::forget;

macro_rules! proof {
    ($name:ident, $unwind:literal, $body:block) => {
        #[kani::proof]
        #[kani::unwind($unwind)]
        #[kani::stub(std::fmt::format, crate::verif_stubs::format_stub)]
        #[kani::stub(std::rc::Rc::drop_slow, crate::verif_stubs::rc_drop_slow_stub)]
        #[kani::stub(fancy_regex::Regex::new, crate::verif_stubs::regex_new_stub)]
        #[kani::stub(fancy_regex::Regex::is_match, crate::verif_stubs::regex_is_match_stub)]
        #[kani::stub(core::ptr::drop_in_place, crate::verif_stubs::drop_in_place_stub)]
        fn $name() $body
    };
}

// ---------------------------------------------------------------------------------------------
// K5: CNF combinator
// ---------------------------------------------------------------------------------------------
#[derive(Clone, Copy)]
struct Leaf {
    line: usize,
    alt: usize,
}


/// documented status of one `or` line given the leaf statuses (PASS iff one alternative passed,
/// FAIL iff none passed and one failed, else SKIP)
fn line_oracle(row: &[u8]) -> u8 {
    let mut any_pass = false;
    let mut any_fail = false;
    let mut i = 0;
    while i < row.len() {
        if row[i] == PASS {
            any_pass = true;
        }
        if row[i] == FAIL {
            any_fail = true;
        }
        i += 1;
    }
    if any_pass {
        PASS
    } else if any_fail {
        FAIL
    } else {
        SKIP
    }
}

macro_rules! k5 {
    ($name:ident, $lines:literal, $alts:literal, $with_err:literal, $unwind:literal) => {
        proof!($name, $unwind, {
            // leaf outcomes: symbolic in {PASS, FAIL, SKIP} (+ Err when $with_err)
            let mut st = [[PASS; $alts]; $lines];
            let mut l = 0;
            while l < $lines {
                let mut a = 0;
                while a < $alts {
                    let v: u8 = kani::any();
                    kani::assume(v < if $with_err { 4 } else { 3 });
                    st[l][a] = v;
                    a += 1;
                }
                l += 1;
            }
            let evaluated: [[Cell<bool>; $alts]; $lines] = Default::default();
            let mut conj: Conjunctions<Leaf> = Vec::with_capacity($lines);
            let mut l = 0;
            while l < $lines {
                let mut row = Vec::with_capacity($alts);
                let mut a = 0;
                while a < $alts {
                    row.push(Leaf { line: l, alt: a });
                    a += 1;
                }
                conj.push(row);
                l += 1;
            }
            let mut ctx = Ctx::new();
            let r = eval_conjunction_clauses(&conj, &mut ctx, |leaf: &Leaf, _r: &mut dyn EvalContext<'_, '_>| {
                evaluated[leaf.line][leaf.alt].set(true);
                match st[leaf.line][leaf.alt] {
                    PASS => Ok(Status::PASS),
                    FAIL => Ok(Status::FAIL),
                    SKIP => Ok(Status::SKIP),
                    _ => Err(Error::NotComparable(String::new())),
                }
            });
            // ---- oracle: walk in document order until the first Err
            let mut any_line_fail = false;
            let mut any_line_pass = false;
            let mut err_seen = false;
            let mut exp_disj = 0usize;
            let mut l = 0;
            while l < $lines && !err_seen {
                let mut passed = false;
                let mut failed = false;
                let mut a = 0;
                while a < $alts {
                    // alternatives after the first PASS (or after an error) are not evaluated
                    let should_eval = !passed && !err_seen;
                    assert!(evaluated[l][a].get() == should_eval);
                    if should_eval {
                        match st[l][a] {
                            PASS => passed = true,
                            FAIL => failed = true,
                            SKIP => {}
                            _ => err_seen = true,
                        }
                    }
                    a += 1;
                }
                let ls = if passed { PASS } else if failed { FAIL } else { SKIP };
                if $alts > 1 {
                    // exactly one Disjunction record per multi-alternative line, carrying the line status
                    // (FAIL when the line was cut short by an error)
                    assert!(ctx.disj[exp_disj] == if err_seen { FAIL } else { ls });
                    exp_disj += 1;
                }
                if !err_seen {
                    if ls == FAIL {
                        any_line_fail = true;
                    }
                    if ls == PASS {
                        any_line_pass = true;
                    }
                }
                l += 1;
            }
            // lines after an error are not evaluated at all
            while l < $lines {
                let mut a = 0;
                while a < $alts {
                    assert!(!evaluated[l][a].get());
                    a += 1;
                }
                l += 1;
            }
            assert!(ctx.n_disj == exp_disj);
            assert!(ctx.balanced());
            match &r {
                Ok(s) => {
                    assert!(!err_seen);
                    let exp = if any_line_fail { FAIL } else if any_line_pass { PASS } else { SKIP };
                    assert!(code(*s) == exp);
                }
                Err(Error::NotComparable(_)) => assert!(err_seen),
                Err(_) => assert!(false),
            }
            kani::cover!(matches!(r, Ok(Status::PASS)));
            kani::cover!(matches!(r, Ok(Status::FAIL)));
            kani::cover!(matches!(r, Ok(Status::SKIP)));
            kani::cover!(r.is_err() || !$with_err);
            forget(r);
            forget(conj);
        });
    };
}

//@ k5_cnf_1x1 props=C02,C01:t,C04,C08:t tier=quick expect=pass fns=eval_conjunction_clauses :: CNF combinator, 1 line x 1 alternative, leaf outcome symbolic in {PASS,FAIL,SKIP,Err}: status = documented rule; no Disjunction record for a single alternative; start/end balanced; Err propagates
k5!(k5_cnf_1x1, 1, 1, true, 4);
//@ k5_cnf_1x2 props=C02,C01:t,C04,C08:t tier=quick expect=pass fns=eval_conjunction_clauses :: CNF 1x2, leaves symbolic incl. Err: short-circuit after first PASS (alternative 2 not evaluated), one Disjunction record with the line status, balanced, Err closes the open record
k5!(k5_cnf_1x2, 1, 2, true, 5);
//@ k5_cnf_2x1 props=C02,C01:t,C04,C08:t tier=quick expect=pass fns=eval_conjunction_clauses :: CNF 2x1, leaves symbolic incl. Err: every line evaluated (no short-circuit across lines) unless an error aborts; FAIL iff a line failed, PASS iff none failed and one passed, else SKIP
k5!(k5_cnf_2x1, 2, 1, true, 5);
//@ k5_cnf_2x2 props=C02,C01,C04,C08 tier=quick expect=pass fns=eval_conjunction_clauses :: CNF 2x2 (4^4 leaf outcome vectors incl. Err in one query): status, evaluation set, Disjunction records (count, order, status), balance, error propagation
k5!(k5_cnf_2x2, 2, 2, true, 5);
//@ k5_cnf_3x1 props=C02,C04 tier=thorough expect=pass fns=eval_conjunction_clauses :: CNF 3x1, leaves in {PASS,FAIL,SKIP,Err}
k5!(k5_cnf_3x1, 3, 1, true, 6);
//@ k5_cnf_1x3 props=C02,C04 tier=thorough expect=pass fns=eval_conjunction_clauses :: CNF 1x3, leaves in {PASS,FAIL,SKIP,Err}
k5!(k5_cnf_1x3, 1, 3, true, 6);
//@ k5_cnf_2x3 props=C02,C04 tier=thorough expect=pass fns=eval_conjunction_clauses :: CNF 2x3, leaves in {PASS,FAIL,SKIP}
k5!(k5_cnf_2x3, 2, 3, false, 6);
//@ k5_cnf_3x2 props=C02,C04 tier=thorough expect=pass fns=eval_conjunction_clauses :: CNF 3x2, leaves in {PASS,FAIL,SKIP}
k5!(k5_cnf_3x2, 3, 2, false, 6);
//@ k5_cnf_3x3 props=C02,C04 tier=thorough expect=pass fns=eval_conjunction_clauses :: CNF 3x3, all 3^9 leaf status vectors in one query
k5!(k5_cnf_3x3, 3, 3, false, 6);

// ---- K5p: order / repetition independence of the real combinator --------------------------------
fn run_cnf(conj: &Conjunctions<Leaf>, st: &[[u8; 3]; 3]) -> u8 {
    let mut ctx = Ctx::new();
    let r = eval_conjunction_clauses(conj, &mut ctx, |leaf: &Leaf, _r: &mut dyn EvalContext<'_, '_>| {
        Ok(match st[leaf.line][leaf.alt] {
            PASS => Status::PASS,
            FAIL => Status::FAIL,
            _ => Status::SKIP,
        })
    });
    let v = match &r {
        Ok(s) => code(*s),
        Err(_) => ERR,
    };
    assert!(ctx.balanced());
    forget(r);
    v
}

const PERMS3: [[usize; 3]; 6] = [[0, 1, 2], [0, 2, 1], [1, 0, 2], [1, 2, 0], [2, 0, 1], [2, 1, 0]];

macro_rules! k5p {
    ($name:ident, $lines:literal, $alts:literal, $unwind:literal) => {
        proof!($name, $unwind, {
            let mut st = [[SKIP; 3]; 3];
            let mut l = 0;
            while l < $lines {
                let mut a = 0;
                while a < $alts {
                    let v: u8 = kani::any();
                    kani::assume(v < 3);
                    st[l][a] = v;
                    a += 1;
                }
                l += 1;
            }
            // symbolic permutation of lines and (independently, per file) of alternatives
            let pl: usize = kani::any();
            let pa: usize = kani::any();
            kani::assume(pl < 6 && pa < 6);
            // keep only permutations of the first $lines / $alts indices
            let mut l = 0;
            while l < 3 {
                if l >= $lines {
                    kani::assume(PERMS3[pl][l] == l);
                }
                if l >= $alts {
                    kani::assume(PERMS3[pa][l] == l);
                }
                l += 1;
            }
            // duplication: optionally repeat line `dl` at the end, and alternative `da` at the end of each line
            let dup_line: bool = kani::any();
            let dup_alt: bool = kani::any();
            let dl: usize = kani::any();
            let da: usize = kani::any();
            kani::assume(dl < $lines && da < $alts);
            let mut base: Conjunctions<Leaf> = Vec::with_capacity(4);
            let mut perm: Conjunctions<Leaf> = Vec::with_capacity(4);
            let mut l = 0;
            while l < $lines {
                let mut row = Vec::with_capacity(4);
                let mut prow = Vec::with_capacity(4);
                let mut a = 0;
                while a < $alts {
                    row.push(Leaf { line: l, alt: a });
                    prow.push(Leaf { line: PERMS3[pl][l], alt: PERMS3[pa][a] });
                    a += 1;
                }
                if dup_alt {
                    prow.push(Leaf { line: PERMS3[pl][l], alt: da });
                }
                base.push(row);
                perm.push(prow);
                l += 1;
            }
            if dup_line {
                let mut prow = Vec::with_capacity(4);
                let mut a = 0;
                while a < $alts {
                    prow.push(Leaf { line: dl, alt: a });
                    a += 1;
                }
                perm.push(prow);
            }
            let s1 = run_cnf(&base, &st);
            let s2 = run_cnf(&perm, &st);
            assert!(s1 == s2);
            assert!(s1 != ERR);
            kani::cover!(s1 == PASS && pl != 0);
            kani::cover!(s1 == FAIL && dup_line);
            kani::cover!(s1 == SKIP);
            forget(base);
            forget(perm);
        });
    };
}
//@ k5p_perm_2x2 props=C04,C02:t tier=quick expect=pass fns=eval_conjunction_clauses :: order independence: real combinator on a 2x2 CNF vs the same CNF with lines and alternatives permuted (symbolic permutation) and optionally one line / one alternative duplicated: same status for all leaf status vectors
k5p!(k5p_perm_2x2, 2, 2, 6);
//@ k5p_perm_3x2 props=C04 tier=thorough expect=pass fns=eval_conjunction_clauses :: order independence 3 lines x 2 alternatives, all 6 line permutations, duplication
k5p!(k5p_perm_3x2, 3, 2, 7);
//@ k5p_perm_2x3 props=C04 tier=thorough expect=pass fns=eval_conjunction_clauses :: order independence 2 lines x 3 alternatives, all 6 alternative permutations, duplication
k5p!(k5p_perm_2x3, 2, 3, 7);
//@ k5p_perm_3x3 props=C04 tier=thorough expect=pass fns=eval_conjunction_clauses :: order independence 3x3, all 36 permutation pairs, duplication
k5p!(k5p_perm_3x3, 3, 3, 7);

// ---- K6: named-rule clause -----------------------------------------------------------------------
//@ k6_named_rule props=C02,C03,C01,C08 tier=quick expect=pass fns=eval_guard_named_clause :: clause naming another rule: dependent status symbolic in {PASS,FAIL,SKIP,Err}, negation symbolic: PASS iff (dep == PASS) xor negation, never SKIP; DependentRule record iff FAIL; error propagates with the record closed; unreachable!() never reached
proof!(k6_named_rule, 4, {
    let mut name = String::new();
    name.push('r');
    let neg: bool = kani::any();
    let gnc = GuardNamedRuleClause {
        dependent_rule: name,
        negation: neg,
        custom_message: None,
        location: FileLocation { line: 0, column: 0, file_name: "" },
    };
    let mut ctx = Ctx::new();
    let dep: u8 = kani::any();
    kani::assume(dep < 4);
    ctx.rule = dep;
    let r = eval_guard_named_clause(&gnc, &mut ctx);
    assert!(ctx.balanced() && ctx.starts == 1);
    assert!(ctx.rule_calls == 1);
    match &r {
        Ok(s) => {
            assert!(dep != 3);
            let exp_pass = (dep == PASS) != neg;
            assert!(code(*s) == if exp_pass { PASS } else { FAIL });
            assert!(ctx.n_success == exp_pass as u32);
            assert!(ctx.n_dependent == (!exp_pass) as u32);
        }
        Err(Error::MissingValue(_)) => {
            assert!(dep == 3);
            assert!(ctx.n_dependent == 1 && ctx.n_success == 0);
        }
        Err(_) => assert!(false),
    }
    kani::cover!(matches!(r, Ok(Status::PASS)) && neg && dep == SKIP);
    kani::cover!(matches!(r, Ok(Status::FAIL)) && neg);
    kani::cover!(r.is_err());
    forget(r);
    forget(gnc);
});

//@ k_eval_twin props=C01,C02,C03,C04,C08 tier=quick expect=fail fns=eval_guard_named_clause :: vacuity twin for the eval.rs family: same stub context and construction as k6, final assert(false) must be reached
proof!(k_eval_twin, 4, {
    let mut name = String::new();
    name.push('r');
    let gnc = GuardNamedRuleClause {
        dependent_rule: name,
        negation: kani::any(),
        custom_message: None,
        location: FileLocation { line: 0, column: 0, file_name: "" },
    };
    let mut ctx = Ctx::new();
    ctx.rule = 0;
    let r = eval_guard_named_clause(&gnc, &mut ctx);
    assert!(ctx.balanced());
    forget(r);
    forget(gnc);
    assert!(false, "twin-reached");
});
