//! target: guard/src/rules/eval_context.rs
// K20: the real RecordTracker (start_record / end_record stack discipline, tree construction).
#![allow(unused_imports, dead_code, unused_variables)]
use super::*;
use std::mem::forget;

macro_rules! proof {
    ($name:ident, $unwind:literal, $body:block) => {
        #[kani::proof]
        #[kani::unwind($unwind)]
        #[kani::stub(std::fmt::format, crate::verif_stubs::format_stub)]
        #[kani::stub(std::rc::Rc::drop_slow, crate::verif_stubs::rc_drop_slow_stub)]
        #[kani::stub(core::ptr::drop_in_place, crate::verif_stubs::drop_in_place_stub)]
        fn $name() $body
    };
}

fn any_status() -> Status {
    let s: u8 = kani::any();
    kani::assume(s < 3);
    match s {
        0 => Status::PASS,
        1 => Status::FAIL,
        _ => Status::SKIP,
    }
}

fn ctx_name(which: bool) -> &'static str {
    if which { "a" } else { "b" }
}

//@ k20_tracker_nest props=C02 tier=probe expect=pass fns=RecordTracker::start_record,RecordTracker::end_record :: real RecordTracker: start(c1) start(c2) end(e2, S2) end(e1, S1) with the four context names symbolic in {a,b}: accepted iff e2 == c2 (and then e1 == c1); the result is a root node c1 carrying S1 with exactly one child c2 carrying S2; a mismatching end is an error and nothing is attached
proof!(k20_tracker_nest, 6, {
    let c1: bool = kani::any();
    let c2: bool = kani::any();
    let e2: bool = kani::any();
    let e1: bool = kani::any();
    let s1 = any_status();
    let s2 = any_status();
    let mut t = RecordTracker { events: Vec::with_capacity(4), final_event: None };
    let r = t.start_record(ctx_name(c1));
    assert!(r.is_ok());
    forget(r);
    let r = t.start_record(ctx_name(c2));
    assert!(r.is_ok());
    forget(r);
    let r2 = t.end_record(ctx_name(e2), RecordType::RuleCondition(s2));
    if e2 != c2 {
        assert!(r2.is_err());
        assert!(t.final_event.is_none());
    } else {
        assert!(r2.is_ok());
        assert!(t.final_event.is_none());
        let r1 = t.end_record(ctx_name(e1), RecordType::RuleCondition(s1));
        if e1 != c1 {
            assert!(r1.is_err());
            assert!(t.final_event.is_none());
        } else {
            assert!(r1.is_ok());
            match &t.final_event {
                Some(root) => {
                    assert!(root.children.len() == 1);
                    assert!(matches!(&root.container, Some(RecordType::RuleCondition(s)) if *s == s1));
                    assert!(matches!(&root.children[0].container, Some(RecordType::RuleCondition(s)) if *s == s2));
                    assert!(root.children[0].children.len() == 0);
                    assert!(t.events.len() == 0);
                }
                None => assert!(false),
            }
        }
        forget(r1);
    }
    kani::cover!(e2 != c2);
    kani::cover!(e2 == c2 && e1 == c1);
    forget(r2);
    forget(t);
});

//@ k20_tracker_unbalanced props=C02,C08 tier=probe expect=pass fns=RecordTracker::end_record :: real RecordTracker: end_record without a start is an error, never a panic
proof!(k20_tracker_unbalanced, 4, {
    let mut t = RecordTracker { events: Vec::new(), final_event: None };
    let r = t.end_record("a", RecordType::RuleCondition(any_status()));
    assert!(r.is_err());
    assert!(t.final_event.is_none());
    kani::cover!(r.is_err());
    forget(r);
    forget(t);
});
