//! target: guard/src/rules/eval_context.rs
// K4b: FileReport::combine; K15b: retrieve_index of the query engine.
#![allow(unused_imports, dead_code, unused_variables)]
use super::*;
use crate::rules::path_value::{Location, Path};
use std::mem::forget;

macro_rules! proof {
    ($name:ident, $unwind:literal, $body:block) => {
        #[kani::proof]
        #[kani::unwind($unwind)]
        #[kani::stub(std::fmt::format, crate::verif_stubs::format_stub)]
        #[kani::stub(std::rc::Rc::drop_slow, crate::verif_stubs::rc_drop_slow_stub)]
        #[kani::stub(core::ptr::drop_in_place, crate::verif_stubs::drop_in_place_stub)]
        #[kani::stub(std::hash::RandomState::new, crate::verif_stubs::random_state_stub)]
        fn $name() $body
    };
}

fn p() -> Path {
    Path(String::new(), Location { line: 0, col: 0 })
}

fn any_status() -> Status {
    let s: u8 = kani::any();
    kani::assume(s < 3);
    match s {
        0 => Status::PASS,
        1 => Status::FAIL,
        _ => Status::SKIP,
    }
}

fn report(status: Status) -> FileReport<'static> {
    FileReport {
        name: "d",
        metadata: HashMap::with_hasher(crate::verif_stubs::random_state_stub()),
        status,
        not_compliant: Vec::new(),
        not_applicable: BTreeSet::new(),
        compliant: BTreeSet::new(),
    }
}

//@ k4_combine props=C09 tier=quick expect=pass fns=FileReport::combine,Status::and :: FileReport::combine over 3 reports (same data file name) with symbolic statuses, starting from the default report: combined status = FAIL iff some part FAIL, PASS iff none FAIL and some PASS, else SKIP; independent of order; no "Incompatible to merge" panic for equal names
proof!(k4_combine, 4, {
    let a = any_status();
    let b = any_status();
    let c = any_status();
    let mut acc = FileReport { name: "d", ..Default::default() };
    acc.combine(report(a));
    acc.combine(report(b));
    acc.combine(report(c));
    let any_fail = a == Status::FAIL || b == Status::FAIL || c == Status::FAIL;
    let any_pass = a == Status::PASS || b == Status::PASS || c == Status::PASS;
    let exp = if any_fail { Status::FAIL } else if any_pass { Status::PASS } else { Status::SKIP };
    assert!(acc.status == exp);
    let mut acc2 = FileReport { name: "d", ..Default::default() };
    acc2.combine(report(c));
    acc2.combine(report(a));
    acc2.combine(report(b));
    assert!(acc2.status == acc.status);
    kani::cover!(exp == Status::PASS);
    kani::cover!(exp == Status::SKIP);
    forget(acc);
    forget(acc2);
});

fn int_list(n: usize) -> Vec<PathAwareValue> {
    let mut v = Vec::with_capacity(2);
    let mut i = 0;
    while i < n {
        v.push(PathAwareValue::Int((p(), i as i64)));
        i += 1;
    }
    v
}

macro_rules! k15b {
    ($name:ident, $n:literal) => {
        proof!($name, 4, {
            let idx: i32 = kani::any();
            let list = int_list($n);
            let parent = Rc::new(PathAwareValue::Null(p()));
            let r = retrieve_index(parent, idx, &list, &[]);
            let mag: i64 = if idx >= 0 { idx as i64 } else { -(idx as i64) };
            match &r {
                QueryResult::Resolved(v) => match &**v {
                    PathAwareValue::Int((_, x)) => assert!(mag < $n && *x == mag),
                    _ => assert!(false),
                },
                QueryResult::UnResolved(_) => assert!(mag >= $n),
                _ => assert!(false),
            }
            kani::cover!(matches!(r, QueryResult::UnResolved(_)));
            kani::cover!(idx == i32::MIN);
            forget(r);
            forget(list);
        });
    };
}
//@ k15b_index_n0 props=C08 tier=quick expect=pass fns=retrieve_index :: query engine list index `[n]`, list length 0, n any i32 (incl. i32::MIN): no overflow/panic; out of range => UnResolved
k15b!(k15b_index_n0, 0);
// (list length 2 needs PathAwareValue::clone of a heap-held element of unknown kind: 420 s timeout, dropped)

//@ k15b_twin props=C08 tier=quick expect=fail fns=retrieve_index :: vacuity twin
proof!(k15b_twin, 4, {
    let idx: i32 = kani::any();
    kani::assume(idx >= 0);
    let list = int_list(0);
    let parent = Rc::new(PathAwareValue::Null(p()));
    let r = retrieve_index(parent, idx, &list, &[]);
    forget(r);
    forget(list);
    assert!(false, "twin-reached");
});
