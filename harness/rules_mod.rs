//! target: guard/src/rules/mod.rs
// K4: status algebra (Status::and is private to rules; child module has access)
#![allow(unused_imports, dead_code, unused_variables)]
use super::*;

fn any_status() -> Status {
    let s: u8 = kani::any();
    kani::assume(s < 3);
    match s {
        0 => Status::PASS,
        1 => Status::FAIL,
        _ => Status::SKIP,
    }
}

//@ k4_status_and props=C09,C02,C04 tier=quick expect=pass fns=Status::and :: Status::and on up to 4 symbolic statuses: SKIP neutral, commutative, associative, fold from the default SKIP = FAIL if any FAIL, else PASS if any PASS, else SKIP (the file/report combination rule), independent of order
#[kani::proof]
fn k4_status_and() {
    let a = any_status();
    let b = any_status();
    let c = any_status();
    let d = any_status();
    // neutral element, commutativity, associativity
    assert!(Status::SKIP.and(a) == a && a.and(Status::SKIP) == a);
    assert!(a.and(b) == b.and(a));
    assert!(a.and(b).and(c) == a.and(b.and(c)));
    // fold = documented rule
    let fold = Status::default().and(a).and(b).and(c).and(d);
    let any_fail = a == Status::FAIL || b == Status::FAIL || c == Status::FAIL || d == Status::FAIL;
    let any_pass = a == Status::PASS || b == Status::PASS || c == Status::PASS || d == Status::PASS;
    let exp = if any_fail { Status::FAIL } else if any_pass { Status::PASS } else { Status::SKIP };
    assert!(fold == exp);
    // order independence of the fold
    assert!(Status::default().and(d).and(b).and(a).and(c) == fold);
    kani::cover!(fold == Status::PASS);
    kani::cover!(fold == Status::FAIL);
    kani::cover!(fold == Status::SKIP);
}

//@ k4_twin props=C09,C02,C04 tier=quick expect=fail fns=Status::and :: vacuity twin
#[kani::proof]
fn k4_twin() {
    let a = any_status();
    assert!(a.and(Status::SKIP) == a);
    assert!(false, "twin-reached");
}
