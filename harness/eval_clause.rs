//! target: guard/src/rules/eval.rs
//! requires: eval_common.rs
// K8: the clause evaluator proper (eval_guard_access_clause: unary and binary paths, all/some
// fold, SKIP on empty selections, prefix negation) with the stub context of eval.rs.
#![allow(unused_imports, dead_code, unused_variables)]
use super::verif_eval_common::*;
use super::*;
use crate::rules::path_value::{Location, MapValue, Path};
use std::mem::forget;

// not on the unary path: cut from the goto-program to keep it small (they return an error if ever called,
// which would make every unary assertion fail => never a silent pass)
fn binary_operation_cut<'value, 'loc: 'value>(
    _lhs_query: &'value [QueryPart<'loc>],
    _rhs: &[QueryResult],
    _cmp: (CmpOperator, bool),
    _context: String,
    _custom_message: Option<String>,
    _eval_context: &mut dyn EvalContext<'value, 'loc>,
) -> Result<EvaluationResult> {
    Err(Error::IncompatibleError(String::new()))
}
fn resolve_function_cut<'value, 'eval, 'loc: 'value>(
    _name: &crate::rules::eval_context::FunctionName,
    _parameters: &'value [LetValue<'loc>],
    _resolver: &'eval mut dyn EvalContext<'value, 'loc>,
) -> Result<Vec<QueryResult>> {
    Err(Error::IncompatibleError(String::new()))
}

macro_rules! proof {
    ($name:ident, $unwind:literal, $body:block) => {
        #[kani::proof]
        #[kani::unwind($unwind)]
        #[kani::stub(std::fmt::format, crate::verif_stubs::format_stub)]
        #[kani::stub(std::rc::Rc::drop_slow, crate::verif_stubs::rc_drop_slow_stub)]
        #[kani::stub(fancy_regex::Regex::new, crate::verif_stubs::regex_new_stub)]
        #[kani::stub(fancy_regex::Regex::is_match, crate::verif_stubs::regex_is_match_stub)]
        #[kani::stub(core::ptr::drop_in_place, crate::verif_stubs::drop_in_place_stub)]
        #[kani::stub(std::hash::RandomState::new, crate::verif_stubs::random_state_stub)]
        #[kani::stub(crate::rules::eval::binary_operation, binary_operation_cut)]
        #[kani::stub(crate::rules::eval_context::resolve_function, resolve_function_cut)]
        fn $name() $body
    };
}

fn key_query(name: char) -> Vec<QueryPart<'static>> {
    let mut s = String::new();
    s.push(name);
    let mut q = Vec::with_capacity(1);
    q.push(QueryPart::Key(s));
    q
}

fn gac(
    query: Vec<QueryPart<'static>>,
    match_all: bool,
    cmp: (CmpOperator, bool),
    rhs: Option<LetValue<'static>>,
    negation: bool,
) -> GuardAccessClause<'static> {
    GuardAccessClause {
        access_clause: AccessClause {
            query: AccessQuery { query, match_all },
            comparator: cmp,
            compare_with: rhs,
            custom_message: None,
            location: FileLocation { line: 0, column: 0, file_name: "" },
        },
        negation,
    }
}

fn status_of(r: &Result<Status>) -> u8 {
    match r {
        Ok(s) => code(*s),
        Err(_) => ERR,
    }
}

/// documented truth value of a unary operator on one query result of concrete kind
/// (R_TRUE / R_FALSE / R_ERR); None where the docs are silent (empty on bool/null/char)
fn unary_doc(op: CmpOperator, kind: u8) -> Option<u8> {
    let t = |b: bool| Some(if b { R_TRUE } else { R_FALSE });
    match op {
        CmpOperator::Exists => t(kind != V_UNRESOLVED),
        CmpOperator::Empty => match kind {
            V_STR_EMPTY | V_LIST_EMPTY | V_MAP_EMPTY | V_UNRESOLVED => t(true),
            V_STR_X | V_LIST_1 => t(false),
            V_INT | V_FLOAT => Some(R_ERR),
            _ => None,
        },
        CmpOperator::IsString => t(kind == V_STR_EMPTY || kind == V_STR_X),
        CmpOperator::IsList => t(kind == V_LIST_EMPTY || kind == V_LIST_1),
        CmpOperator::IsMap => t(kind == V_MAP_EMPTY),
        CmpOperator::IsInt => t(kind == V_INT),
        CmpOperator::IsFloat => t(kind == V_FLOAT),
        CmpOperator::IsBool => t(kind == V_BOOL),
        CmpOperator::IsNull => t(kind == V_NULL),
        _ => None,
    }
}

// ---- unary clause: n query results of concrete kinds; polarity, prefix negation, some/all symbolic
macro_rules! k8u {
    ($name:ident, $op:expr, [$($kind:expr),*], $unwind:literal) => {
        proof!($name, $unwind, {
            let kinds: &[u8] = &[$($kind),*];
            let not_op: bool = kani::any();
            let negation: bool = kani::any();
            let all: bool = kani::any();
            let clause = gac(key_query('a'), all, ($op, not_op), None, negation);
            let mut ctx = Ctx::new();
            let mut lhs = Vec::with_capacity(kinds.len());
            let mut i = 0;
            while i < kinds.len() {
                lhs.push(mk_qr(kinds[i], false));
                i += 1;
            }
            ctx.lhs = Some(lhs);
            let r = eval_guard_access_clause(&clause, &mut ctx);
            let got = status_of(&r);
            // ---- oracle
            let mut passes = 0u32;
            let mut fails = 0u32;
            let mut err = false;
            let mut undocumented = false;
            let mut i = 0;
            while i < kinds.len() && !err {
                match unary_doc($op, kinds[i]) {
                    Some(R_ERR) => err = true,
                    Some(v) => {
                        let truth = (v == R_TRUE) != not_op; // operator-level !op
                        let truth = truth != negation; // prefix not
                        if truth { passes += 1 } else { fails += 1 }
                    }
                    None => undocumented = true,
                }
                i += 1;
            }
            assert!(ctx.balanced());
            assert!(ctx.n_block == 1);
            if !undocumented {
                if kinds.len() == 0 {
                    // empty selection (only possible with filters): the clause is SKIP
                    assert!(got == SKIP);
                } else if err {
                    assert!(got == ERR);
                    assert!(ctx.block_status == FAIL);
                } else {
                    let exp = if all {
                        if fails > 0 { FAIL } else { PASS }
                    } else {
                        if passes > 0 { PASS } else { FAIL }
                    };
                    assert!(got == exp);
                    assert!(ctx.block_status == exp);
                    assert!(ctx.n_success == passes && ctx.n_unary_fail == fails);
                }
            }
            kani::cover!(got == PASS && negation || kinds.len() == 0 || err);
            kani::cover!(got == FAIL && !negation || kinds.len() == 0 || err);
            forget(r);
            forget(clause);
        });
    };
}

//@ k8u_exists_1 props=C01,C03,C02,C08:t tier=quick expect=pass fns=eval_guard_access_clause,unary_operation,record_unary_clause,exists_operation,not_operation,inverse_operation :: clause level, `[not] a [!]exists` on 1 query result (resolved Int | unresolved: two instances in one harness via symbolic pick is not possible -> resolved Int): status = truth xor !op xor prefix-not; one GuardClauseBlockCheck with that status; value records match; balanced
k8u!(k8u_exists_1, CmpOperator::Exists, [V_INT], 6);
//@ k8u_exists_unres props=C01,C03,C02 tier=quick expect=pass fns=eval_guard_access_clause,unary_operation,record_unary_clause,exists_operation :: clause level, exists on 1 unresolved result: `a exists` FAIL, `a !exists` PASS, `not a exists` PASS, `not a !exists` FAIL
k8u!(k8u_exists_unres, CmpOperator::Exists, [V_UNRESOLVED], 6);
//@ k8u_exists_2 props=C01,C03,C02 tier=thorough expect=pass fns=eval_guard_access_clause,unary_operation,record_unary_clause,exists_operation :: clause level, exists on 2 results (resolved, unresolved): all => FAIL unless negated..., some => PASS; all/some fold over per-value outcomes
k8u!(k8u_exists_2, CmpOperator::Exists, [V_INT, V_UNRESOLVED], 7);
//@ k8u_empty_skip props=C01,C02 tier=quick expect=pass fns=eval_guard_access_clause,unary_operation :: clause level, unary operator on an empty selection: SKIP regardless of polarity/negation/some
k8u!(k8u_empty_skip, CmpOperator::IsString, [], 6);
//@ k8u_empty_str props=C01,C03 tier=thorough expect=pass fns=eval_guard_access_clause,unary_operation,element_empty_operation :: clause level, `empty` on ("" , "x"): per-value truth by length, fold by all/some, negations
k8u!(k8u_empty_str, CmpOperator::Empty, [V_STR_EMPTY, V_STR_X], 7);
//@ k8u_empty_int props=C01,C03,C08 tier=quick expect=pass fns=eval_guard_access_clause,unary_operation,element_empty_operation :: clause level, `empty` on a number: evaluation error for every polarity/negation (never inverted into PASS), block record closed with FAIL
k8u!(k8u_empty_int, CmpOperator::Empty, [V_INT], 6);
//@ k8u_isstring_2 props=C01,C03 tier=thorough expect=pass fns=eval_guard_access_clause,unary_operation,is_string_operation :: clause level, is_string on ("x", Int)
k8u!(k8u_isstring_2, CmpOperator::IsString, [V_STR_X, V_INT], 7);
//@ k8u_islist_2 props=C01,C03 tier=thorough expect=pass fns=eval_guard_access_clause,unary_operation,is_list_operation :: clause level, is_list on (empty list, "x")
k8u!(k8u_islist_2, CmpOperator::IsList, [V_LIST_EMPTY, V_STR_X], 7);
//@ k8u_isint_3 props=C01,C03 tier=thorough expect=pass fns=eval_guard_access_clause,unary_operation,is_int_operation :: clause level, is_int on (Int, Float, unresolved)
k8u!(k8u_isint_3, CmpOperator::IsInt, [V_INT, V_FLOAT, V_UNRESOLVED], 8);
//@ k8u_isnull_2 props=C01,C03 tier=thorough expect=pass fns=eval_guard_access_clause,unary_operation,is_null_operation :: clause level, is_null on (Null, Bool)
k8u!(k8u_isnull_2, CmpOperator::IsNull, [V_NULL, V_BOOL], 7);
//@ k8u_isbool_2 props=C01,C03 tier=thorough expect=pass fns=eval_guard_access_clause,unary_operation,is_bool_operation :: clause level, is_bool on (Bool, Null)
k8u!(k8u_isbool_2, CmpOperator::IsBool, [V_BOOL, V_NULL], 7);
//@ k8u_isfloat_2 props=C01,C03 tier=thorough expect=pass fns=eval_guard_access_clause,unary_operation,is_float_operation :: clause level, is_float on (Float, Int)
k8u!(k8u_isfloat_2, CmpOperator::IsFloat, [V_FLOAT, V_INT], 7);
//@ k8u_ismap_2 props=C01,C03 tier=thorough expect=pass fns=eval_guard_access_clause,unary_operation,is_struct_operation :: clause level, is_struct on (empty map, empty list)
k8u!(k8u_ismap_2, CmpOperator::IsMap, [V_MAP_EMPTY, V_LIST_EMPTY], 7);

// ---- `%var empty` / `<query ending in a filter> empty`: the emptiness test on the RESULT SET -----------------
fn var_query() -> Vec<QueryPart<'static>> {
    let mut s = String::new();
    s.push('%');
    s.push('v');
    let mut q = Vec::with_capacity(1);
    q.push(QueryPart::Key(s));
    q
}

macro_rules! k8v {
    ($name:ident, [$($kind:expr),*], $unwind:literal) => {
        proof!($name, $unwind, {
            let kinds: &[u8] = &[$($kind),*];
            let not_op: bool = kani::any();
            let negation: bool = kani::any();
            let all: bool = kani::any();
            let clause = gac(var_query(), all, (CmpOperator::Empty, not_op), None, negation);
            let mut ctx = Ctx::new();
            let mut lhs = Vec::with_capacity(kinds.len());
            let mut i = 0;
            while i < kinds.len() {
                lhs.push(mk_qr(kinds[i], false));
                i += 1;
            }
            ctx.lhs = Some(lhs);
            let r = eval_guard_access_clause(&clause, &mut ctx);
            let got = status_of(&r);
            assert!(ctx.balanced());
            assert!(ctx.n_block == 1);
            if kinds.len() == 0 {
                // the variable selected nothing: `%v empty` holds; `!empty` and prefix `not` each flip it,
                // both together restore it
                let truth = (true != not_op) != negation;
                assert!(got == if truth { PASS } else { FAIL });
                assert!(ctx.block_status == got);
                assert!(ctx.n_success == truth as u32 && ctx.n_noval == (!truth) as u32);
            } else {
                // per selected entry: unresolved or null counts as empty, any other resolved value as not empty
                let mut passes = 0u32;
                let mut fails = 0u32;
                let mut i = 0;
                while i < kinds.len() {
                    let is_empty = kinds[i] == V_UNRESOLVED || kinds[i] == V_NULL;
                    let truth = (is_empty != not_op) != negation;
                    if truth { passes += 1 } else { fails += 1 }
                    i += 1;
                }
                let exp = if all {
                    if fails > 0 { FAIL } else { PASS }
                } else {
                    if passes > 0 { PASS } else { FAIL }
                };
                assert!(got == exp);
                assert!(ctx.block_status == exp);
                assert!(ctx.n_success == passes && ctx.n_unary_fail == fails);
            }
            kani::cover!(got == PASS && negation);
            kani::cover!(got == FAIL && negation);
            forget(r);
            forget(clause);
        });
    };
}
//@ k8v_varempty_0 props=C03,C01 tier=quick expect=pass fns=eval_guard_access_clause,unary_operation :: clause level, `[not] %v [!]empty` where the variable selects NOTHING: PASS iff true xor `!empty` xor prefix-not (double negation restores); Success / NoValueForEmptyCheck record accordingly; one block record; balanced
k8v!(k8v_varempty_0, [], 6);
//@ k8v_varempty_1 props=C03,C01 tier=quick expect=pass fns=eval_guard_access_clause,unary_operation :: clause level, `[not] %v [!]empty` on one resolved Int: not empty; negations flip
k8v!(k8v_varempty_1, [V_INT], 6);
//@ k8v_varempty_1n props=C03,C01 tier=thorough expect=pass fns=eval_guard_access_clause,unary_operation :: clause level, `[not] %v [!]empty` on one Null entry: a null entry counts as empty; negations flip
k8v!(k8v_varempty_1n, [V_NULL], 6);
//@ k8v_varempty_1u props=C03,C01 tier=thorough expect=pass fns=eval_guard_access_clause,unary_operation :: clause level, `[not] %v [!]empty` on one unresolved entry: an unresolved entry counts as empty; negations flip
k8v!(k8v_varempty_1u, [V_UNRESOLVED], 6);
//@ k8v_varempty_2a props=C03,C01 tier=probe expect=pass fns=eval_guard_access_clause,unary_operation :: (probe only: 7-13 GB of CBMC memory, passes alone in ~10 min, ran out of the 14 GB limit inside a full thorough run) `[not] %v [!]empty` on (Null, "x"): some/all fold over two entries
k8v!(k8v_varempty_2a, [V_NULL, V_STR_X], 7);
//@ k8v_varempty_2b props=C03,C01 tier=probe expect=pass fns=eval_guard_access_clause,unary_operation :: (probe only, see 2a) `[not] %v [!]empty` on (unresolved, "x")
k8v!(k8v_varempty_2b, [V_UNRESOLVED, V_STR_X], 7);

//@ k8_twin props=C01,C02,C03 tier=quick expect=fail fns=eval_guard_access_clause :: vacuity twin of the clause-level family
proof!(k8_twin, 6, {
    let clause = gac(key_query('a'), kani::any(), (CmpOperator::Exists, kani::any()), None, kani::any());
    let mut ctx = Ctx::new();
    let mut lhs = Vec::with_capacity(1);
    lhs.push(mk_qr(V_INT, false));
    ctx.lhs = Some(lhs);
    let r = eval_guard_access_clause(&clause, &mut ctx);
    assert!(ctx.balanced());
    forget(r);
    forget(clause);
    assert!(false, "twin-reached");
});
