//! target: guard/src/rules/eval.rs
//! requires: eval_common.rs
// K9: rule and file level aggregation (eval_rule, eval_rules_file, when conditions, block scope) with the stub
// context; leaves are named-rule clauses whose statuses are planted (symbolic).
#![allow(unused_imports, dead_code, unused_variables)]
use super::verif_eval_common::*;
use super::*;
use crate::rules::path_value::{Location, MapValue, Path};
use std::mem::forget;

// query traversal and function calls are not on the paths exercised here (all leaves are named-rule clauses);
// they are cut because kani-compiler 0.68 crashes (intrinsics.rs:243) when cruet / chrono become reachable
fn query_retrieval_cut<'value, 'loc: 'value>(
    _query_index: usize,
    _query: &'value [QueryPart<'loc>],
    _current: Rc<PathAwareValue>,
    _resolver: &mut dyn EvalContext<'value, 'loc>,
) -> Result<Vec<QueryResult>> {
    Err(Error::IncompatibleError(String::new()))
}
fn resolve_function_cut<'value, 'eval, 'loc: 'value>(
    _name: &crate::rules::eval_context::FunctionName,
    _parameters: &'value [LetValue<'loc>],
    _resolver: &'eval mut dyn EvalContext<'value, 'loc>,
) -> Result<Vec<QueryResult>> {
    Err(Error::IncompatibleError(String::new()))
}

macro_rules! proof {
    ($name:ident, $unwind:literal, $body:block) => {
        #[kani::proof]
        #[kani::unwind($unwind)]
        #[kani::stub(std::fmt::format, crate::verif_stubs::format_stub)]
        #[kani::stub(std::rc::Rc::drop_slow, crate::verif_stubs::rc_drop_slow_stub)]
        #[kani::stub(fancy_regex::Regex::new, crate::verif_stubs::regex_new_stub)]
        #[kani::stub(fancy_regex::Regex::is_match, crate::verif_stubs::regex_is_match_stub)]
        #[kani::stub(core::ptr::drop_in_place, crate::verif_stubs::drop_in_place_stub)]
        #[kani::stub(std::hash::RandomState::new, crate::verif_stubs::random_state_stub)]
        #[kani::stub(crate::rules::eval_context::query_retrieval, query_retrieval_cut)]
        #[kani::stub(crate::rules::eval_context::resolve_function, resolve_function_cut)]
        fn $name() $body
    };
}

fn named(i: u8, negation: bool) -> GuardNamedRuleClause<'static> {
    let mut name = String::new();
    name.push('x');
    name.push((b'0' + i) as char);
    GuardNamedRuleClause {
        dependent_rule: name,
        negation,
        custom_message: None,
        location: FileLocation { line: 0, column: 0, file_name: "" },
    }
}

fn rule(name: char, when: Option<u8>, body: &[u8]) -> Rule<'static> {
    let mut n = String::new();
    n.push(name);
    let conditions = match when {
        Some(i) => {
            let mut line = Vec::with_capacity(1);
            line.push(WhenGuardClause::NamedRule(named(i, false)));
            let mut c = Vec::with_capacity(1);
            c.push(line);
            Some(c)
        }
        None => None,
    };
    let mut conj = Vec::with_capacity(body.len());
    let mut k = 0;
    while k < body.len() {
        let mut line = Vec::with_capacity(1);
        line.push(RuleClause::Clause(GuardClause::NamedRule(named(body[k], false))));
        conj.push(line);
        k += 1;
    }
    Rule { rule_name: n, conditions, block: Block { assignments: Vec::new(), conjunctions: conj } }
}

fn any_leaf(with_err: bool) -> u8 {
    let v: u8 = kani::any();
    kani::assume(v < if with_err { 4 } else { 3 });
    v
}

fn body_fold(sts: &[u8]) -> u8 {
    // a rule body is FAIL iff one of its lines failed, PASS iff none failed and one passed, else SKIP;
    // a named-rule clause is PASS iff the rule is PASS, FAIL otherwise
    let mut any_fail = false;
    let mut any_pass = false;
    let mut i = 0;
    while i < sts.len() {
        if sts[i] == PASS { any_pass = true } else { any_fail = true }
        i += 1;
    }
    if any_fail { FAIL } else if any_pass { PASS } else { SKIP }
}

//@ k9_rule_when props=C02,C01 tier=probe expect=pass fns=eval_rule,eval_general_block_clause,eval_when_clause,eval_rule_clause,eval_guard_clause,block_scope :: one rule `rule r when x0 { x1 }` (dependent statuses symbolic): when not PASS => rule SKIP and the body is NOT evaluated; else rule status = body status; RuleCondition + RuleCheck records carry those statuses; balanced
proof!(k9_rule_when, 6, {
    let r = rule('r', Some(0), &[1]);
    let mut ctx = Ctx::new();
    ctx.leaf[0] = any_leaf(false);
    ctx.leaf[1] = any_leaf(false);
    let res = eval_rule(&r, &mut ctx);
    let got = match &res { Ok(s) => code(*s), Err(_) => ERR };
    let cond_pass = ctx.leaf[0] == PASS;
    if cond_pass {
        assert!(ctx.leaf_calls[1] == 1);
        assert!(got == body_fold(&[ctx.leaf[1]]));
        assert!(ctx.ruleconds[0] == PASS);
    } else {
        assert!(ctx.leaf_calls[1] == 0);
        assert!(got == SKIP);
        // the when condition's own status: a named-rule clause never yields SKIP => FAIL
        assert!(ctx.ruleconds[0] == FAIL);
    }
    assert!(ctx.n_rulecond == 1 && ctx.n_rulecheck == 1 && ctx.rulechecks[0] == got);
    assert!(ctx.balanced());
    kani::cover!(got == SKIP);
    kani::cover!(got == PASS);
    kani::cover!(got == FAIL);
    forget(res);
    forget(r);
});

//@ k9_file_2 props=C02,C04,C09,C01 tier=probe expect=pass fns=eval_rules_file,eval_rule,eval_general_block_clause,block_scope :: file with two rules `rule a { x0 }  rule b when x1 { x2 }` (dependent statuses symbolic): every rule evaluated once, in order, one RuleCheck record each with its status; file = FAIL iff a rule failed, PASS iff none failed and one passed, else SKIP; one FileCheck record with the file status; balanced
proof!(k9_file_2, 6, {
    let mut rules = Vec::with_capacity(2);
    rules.push(rule('a', None, &[0]));
    rules.push(rule('b', Some(1), &[2]));
    let rf = RulesFile { assignments: Vec::new(), guard_rules: rules, parameterized_rules: Vec::new() };
    let mut ctx = Ctx::new();
    ctx.leaf[0] = any_leaf(false);
    ctx.leaf[1] = any_leaf(false);
    ctx.leaf[2] = any_leaf(false);
    let res = eval_rules_file(&rf, &mut ctx, None);
    let got = match &res { Ok(s) => code(*s), Err(_) => ERR };
    let ra = body_fold(&[ctx.leaf[0]]);
    let rb = if ctx.leaf[1] == PASS { body_fold(&[ctx.leaf[2]]) } else { SKIP };
    let exp = if ra == FAIL || rb == FAIL { FAIL } else if ra == PASS || rb == PASS { PASS } else { SKIP };
    assert!(got == exp);
    assert!(ctx.n_rulecheck == 2 && ctx.rulechecks[0] == ra && ctx.rulechecks[1] == rb);
    assert!(ctx.n_filecheck == 1 && ctx.file_status == exp);
    assert!(ctx.leaf_calls[0] == 1 && ctx.leaf_calls[1] == 1);
    assert!(ctx.balanced());
    kani::cover!(got == SKIP);
    kani::cover!(got == PASS);
    kani::cover!(got == FAIL);
    forget(res);
    forget(rf);
});
