//! target: guard/src/rules/functions/strings.rs
// K16 (join): built-in `join`.
#![allow(unused_imports, dead_code, unused_variables)]
use super::*;
use crate::rules::path_value::Location;
use crate::rules::UnResolved;
use std::mem::forget;
use std::rc::Rc;

macro_rules! proof {
    ($name:ident, $unwind:literal, $body:block) => {
        #[kani::proof]
        #[kani::unwind($unwind)]
        #[kani::stub(std::fmt::format, crate::verif_stubs::format_stub)]
        #[kani::stub(std::rc::Rc::drop_slow, crate::verif_stubs::rc_drop_slow_stub)]
        #[kani::stub(core::ptr::drop_in_place, crate::verif_stubs::drop_in_place_stub)]
        #[kani::stub(std::string::String::with_capacity, crate::verif_stubs::string_with_capacity_stub)]
        fn $name() $body
    };
}

fn p() -> Path {
    Path(String::new(), Location { line: 0, col: 0 })
}

fn ascii() -> char {
    let c: char = kani::any();
    kani::assume((c as u32) < 0x80);
    c
}

/// a string argument of symbolic length 0 or 1 (ASCII)
fn str_arg(len1: bool, c: char) -> QueryResult {
    let mut s = String::new();
    if len1 {
        s.push(c);
    }
    QueryResult::Resolved(Rc::new(PathAwareValue::String((p(), s))))
}

//@ k16_join_2 props=C18 tier=quick expect=pass fns=join :: join of two strings of symbolic length 0..1 (ASCII, symbolic) with a 1-char delimiter: result = s0 + d + s1 in query order - the delimiter appears between elements even when an element is empty
proof!(k16_join_2, 8, {
    let (l0, l1): (bool, bool) = (kani::any(), kani::any());
    let (a, b, d) = (ascii(), ascii(), ascii());
    let mut args = Vec::with_capacity(2);
    args.push(str_arg(l0, a));
    args.push(str_arg(l1, b));
    let mut delim = String::new();
    delim.push(d);
    let r = join(&args, delim.as_str());
    match &r {
        Ok(PathAwareValue::String((_, s))) => {
            let by = s.as_bytes();
            let mut exp = [0u8; 3];
            let mut n = 0;
            if l0 { exp[n] = a as u8; n += 1; }
            exp[n] = d as u8; n += 1;
            if l1 { exp[n] = b as u8; n += 1; }
            assert!(by.len() == n);
            let mut i = 0;
            while i < 3 {
                if i < n { assert!(by[i] == exp[i]); }
                i += 1;
            }
        }
        _ => assert!(false),
    }
    kani::cover!(!l0 && l1);
    kani::cover!(l0 && !l1);
    forget(r);
    forget(args);
    forget(delim);
});

//@ k16_join_edge props=C18,C08 tier=probe expect=pass fns=join :: join edge cases: empty argument list => "", single element => no delimiter, a non-string or unresolved member => error (never a wrong value)
proof!(k16_join_edge, 8, {
    let which: u8 = kani::any();
    kani::assume(which < 4);
    let mut delim = String::new();
    delim.push(ascii());
    let mut args = Vec::with_capacity(2);
    let a = ascii();
    match which {
        0 => {}
        1 => args.push(str_arg(true, a)),
        2 => {
            args.push(str_arg(true, a));
            args.push(QueryResult::Resolved(Rc::new(PathAwareValue::Int((p(), kani::any())))));
        }
        _ => {
            args.push(str_arg(true, a));
            args.push(QueryResult::UnResolved(UnResolved {
                traversed_to: Rc::new(PathAwareValue::Null(p())),
                remaining_query: String::new(),
                reason: None,
            }));
        }
    }
    let r = join(&args, delim.as_str());
    match (&r, which) {
        (Ok(PathAwareValue::String((_, s))), 0) => assert!(s.len() == 0),
        (Ok(PathAwareValue::String((_, s))), 1) => assert!(s.len() == 1 && s.as_bytes()[0] == a as u8),
        (Err(Error::IncompatibleError(_)), 2) | (Err(Error::IncompatibleError(_)), 3) => {}
        _ => assert!(false),
    }
    kani::cover!(which == 0);
    kani::cover!(which == 3);
    forget(r);
    forget(args);
    forget(delim);
});
