//! target: guard/src/rules/functions/converters.rs
// K16(converters on non-string inputs): documented value or error, never a wrong value.
#![allow(unused_imports, dead_code, unused_variables)]
use super::*;
use crate::rules::path_value::{Location, Path};
use crate::Error;
use crate::rules::UnResolved;
use std::mem::forget;
use std::rc::Rc;

macro_rules! proof {
    ($name:ident, $unwind:literal, $body:block) => {
        #[kani::proof]
        #[kani::unwind($unwind)]
        #[kani::stub(std::fmt::format, crate::verif_stubs::format_stub)]
        #[kani::stub(std::rc::Rc::drop_slow, crate::verif_stubs::rc_drop_slow_stub)]
        #[kani::stub(core::ptr::drop_in_place, crate::verif_stubs::drop_in_place_stub)]
        fn $name() $body
    };
}

fn p() -> Path {
    Path(String::new(), Location { line: 0, col: 0 })
}
fn one(v: PathAwareValue) -> Vec<QueryResult> {
    let mut a = Vec::with_capacity(1);
    a.push(QueryResult::Resolved(Rc::new(v)));
    a
}
fn unresolved() -> Vec<QueryResult> {
    let mut a = Vec::with_capacity(1);
    a.push(QueryResult::UnResolved(UnResolved {
        traversed_to: Rc::new(PathAwareValue::Null(p())),
        remaining_query: String::new(),
        reason: None,
    }));
    a
}

//@ k16_parse_int_nonstr props=C18,C08:t tier=quick expect=pass fns=parse_int :: parse_int on Int (any i64) = identity; on Char: digit value or error; on Bool/Null/unresolved: skipped
proof!(k16_parse_int_nonstr, 4, {
    let i: i64 = kani::any();
    let a = one(PathAwareValue::Int((p(), i)));
    let r = parse_int(&a);
    match &r {
        Ok(v) => assert!(v.len() == 1 && matches!(&v[0], Some(PathAwareValue::Int((_, x))) if *x == i)),
        Err(_) => assert!(false),
    }
    forget(r);
    let c: char = kani::any();
    let a2 = one(PathAwareValue::Char((p(), c)));
    let r2 = parse_int(&a2);
    match &r2 {
        Ok(v) => {
            assert!(c >= '0' && c <= '9');
            assert!(matches!(&v[0], Some(PathAwareValue::Int((_, x))) if *x == (c as i64 - '0' as i64)));
        }
        Err(Error::ParseError(_)) => assert!(!(c >= '0' && c <= '9')),
        Err(_) => assert!(false),
    }
    kani::cover!(r2.is_ok());
    kani::cover!(r2.is_err());
    forget(r2);
    let a3 = one(PathAwareValue::Bool((p(), kani::any())));
    let r3 = parse_int(&a3);
    assert!(matches!(&r3, Ok(v) if v.len() == 1 && v[0].is_none()));
    forget(r3);
    let a4 = unresolved();
    let r4 = parse_int(&a4);
    assert!(matches!(&r4, Ok(v) if v.len() == 1 && v[0].is_none()));
    forget(r4);
    forget(a); forget(a2); forget(a3); forget(a4);
});

//@ k16_parse_int_float props=C18 tier=quick expect=pass fns=parse_int :: parse_int on a Float (any finite f64 with |v| < 2^53): the documented TRUNCATION toward zero - the result r satisfies |r| <= |v| and |v - r| < 1 (so -1.5 -> -1, 1.5 -> 1, -0.5 -> 0), exactly v for integral v
proof!(k16_parse_int_float, 4, {
    let v: f64 = kani::any();
    kani::assume(v.is_finite() && v > -9007199254740992.0 && v < 9007199254740992.0);
    let a = one(PathAwareValue::Float((p(), v)));
    let r = parse_int(&a);
    match &r {
        Ok(out) => {
            assert!(out.len() == 1);
            match &out[0] {
                Some(PathAwareValue::Int((_, x))) => {
                    let xf = *x as f64; // exact: |x| < 2^53
                    if v >= 0.0 {
                        assert!(xf <= v && v - xf < 1.0);
                    } else {
                        assert!(xf >= v && xf - v < 1.0);
                    }
                }
                _ => assert!(false),
            }
        }
        Err(_) => assert!(false),
    }
    kani::cover!(v < -0.25 && v > -0.75);
    forget(r);
    forget(a);
});

//@ k16_parse_char_int props=C18,C08 tier=quick expect=pass fns=parse_char :: parse_char on Int (any i64): the digit character for 0..9, an error otherwise - never a wrong value, never a panic
proof!(k16_parse_char_int, 4, {
    let i: i64 = kani::any();
    let a = one(PathAwareValue::Int((p(), i)));
    let r = parse_char(&a);
    match &r {
        Ok(v) => {
            assert!(i >= 0 && i <= 9);
            assert!(matches!(&v[0], Some(PathAwareValue::Char((_, c))) if *c as i64 == '0' as i64 + i));
        }
        Err(Error::ParseError(_)) => assert!(i < 0 || i > 9),
        Err(_) => assert!(false),
    }
    kani::cover!(r.is_ok());
    kani::cover!(r.is_err());
    forget(r);
    forget(a);
});

//@ k16_conv_twin props=C18,C08 tier=quick expect=fail fns=parse_int :: vacuity twin of the converter family
proof!(k16_conv_twin, 4, {
    let a = one(PathAwareValue::Int((p(), kani::any())));
    let r = parse_int(&a);
    assert!(r.is_ok());
    forget(r);
    forget(a);
    assert!(false, "twin-reached");
});
