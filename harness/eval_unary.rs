//! target: guard/src/rules/eval.rs
//! requires: eval_common.rs
// K7: unary-operator leaf kernel (exists/empty/is_* with not_operation / inverse_operation).
#![allow(unused_imports, dead_code, unused_variables)]
use super::verif_eval_common::*;
use super::*;
use crate::rules::path_value::{Location, MapValue, Path};
use std::cell::Cell;
use std::mem::forget;

macro_rules! proof {
    ($name:ident, $unwind:literal, $body:block) => {
        #[kani::proof]
        #[kani::unwind($unwind)]
        #[kani::stub(std::fmt::format, crate::verif_stubs::format_stub)]
        #[kani::stub(std::rc::Rc::drop_slow, crate::verif_stubs::rc_drop_slow_stub)]
        #[kani::stub(fancy_regex::Regex::new, crate::verif_stubs::regex_new_stub)]
        #[kani::stub(fancy_regex::Regex::is_match, crate::verif_stubs::regex_is_match_stub)]
        #[kani::stub(core::ptr::drop_in_place, crate::verif_stubs::drop_in_place_stub)]
        fn $name() $body
    };
}

/// laws relating an operation to its two negations (operator-level `!op` and prefix `not`)
fn negation_laws<O: Fn(&QueryResult) -> Result<bool> + Copy>(op: O, q: &QueryResult, plain: u8) {
    // operator-level negation
    assert!(ob(not_operation(op)(q)) == neg(plain));
    // prefix negation (inverse = true) and no prefix (inverse = false)
    assert!(ob(inverse_operation(op, false)(q)) == plain);
    assert!(ob(inverse_operation(op, true)(q)) == neg(plain));
    // prefix and operator-level negation coincide; double negation restores the original
    assert!(ob(inverse_operation(not_operation(op), false)(q)) == neg(plain));
    assert!(ob(inverse_operation(not_operation(op), true)(q)) == plain);
}

macro_rules! k7 {
    ($name:ident, $kind:expr) => {
        proof!($name, 4, {
            let literal: bool = kani::any();
            let q = mk_qr($kind, literal);
            let k: u8 = $kind;
            let resolved = k != V_UNRESOLVED;
            // exists <=> resolved
            let ex = ob(exists_operation(&q));
            assert!(ex == if resolved { R_TRUE } else { R_FALSE });
            negation_laws(exists_operation, &q, ex);
            // empty: strings/lists/maps by length, unresolved = true, numbers = evaluation error;
            // for bool / null / char the docs are silent: only consistency of the negations is asserted
            let em = ob(element_empty_operation(&q));
            match k {
                V_STR_EMPTY | V_LIST_EMPTY | V_MAP_EMPTY | V_UNRESOLVED => assert!(em == R_TRUE),
                V_STR_X | V_LIST_1 => assert!(em == R_FALSE),
                V_INT | V_FLOAT => assert!(em == R_ERR),
                _ => {}
            }
            negation_laws(element_empty_operation, &q, em);
            // is_T <=> kind
            let is_s = ob(is_string_operation(&q));
            assert!(is_s == if k == V_STR_EMPTY || k == V_STR_X { R_TRUE } else { R_FALSE });
            negation_laws(is_string_operation, &q, is_s);
            let is_l = ob(is_list_operation(&q));
            assert!(is_l == if k == V_LIST_EMPTY || k == V_LIST_1 { R_TRUE } else { R_FALSE });
            negation_laws(is_list_operation, &q, is_l);
            let is_m = ob(is_struct_operation(&q));
            assert!(is_m == if k == V_MAP_EMPTY { R_TRUE } else { R_FALSE });
            negation_laws(is_struct_operation, &q, is_m);
            let is_i = ob(is_int_operation(&q));
            assert!(is_i == if k == V_INT { R_TRUE } else { R_FALSE });
            negation_laws(is_int_operation, &q, is_i);
            let is_f = ob(is_float_operation(&q));
            assert!(is_f == if k == V_FLOAT { R_TRUE } else { R_FALSE });
            negation_laws(is_float_operation, &q, is_f);
            let is_b = ob(is_bool_operation(&q));
            assert!(is_b == if k == V_BOOL { R_TRUE } else { R_FALSE });
            negation_laws(is_bool_operation, &q, is_b);
            let is_n = ob(is_null_operation(&q));
            assert!(is_n == if k == V_NULL { R_TRUE } else { R_FALSE });
            negation_laws(is_null_operation, &q, is_n);
            kani::cover!(literal);
            kani::cover!(!literal);
            forget(q);
        });
    };
}
//@ k7_unary_null props=C01:t,C03 tier=quick expect=pass fns=exists_operation,element_empty_operation,is_string_operation,is_list_operation,is_struct_operation,is_int_operation,is_float_operation,is_bool_operation,is_null_operation,not_operation,inverse_operation :: unary leaf kernel on a Null value (Resolved or Literal, symbolic): truth table of the 9 unary operators + negation laws (!op, prefix not, double negation; errors never inverted into success)
k7!(k7_unary_null, V_NULL);
//@ k7_unary_int props=C01,C03,C08:t tier=quick expect=pass fns=exists_operation,element_empty_operation,is_int_operation,not_operation,inverse_operation :: unary leaf kernel on an Int (any i64): `empty` on a number is an evaluation error, also under every negation
k7!(k7_unary_int, V_INT);
//@ k7_unary_float props=C01,C03 tier=thorough expect=pass fns=exists_operation,element_empty_operation,is_float_operation,not_operation,inverse_operation :: unary leaf kernel on a Float (any f64)
k7!(k7_unary_float, V_FLOAT);
//@ k7_unary_bool props=C01,C03 tier=thorough expect=pass fns=exists_operation,element_empty_operation,is_bool_operation,not_operation,inverse_operation :: unary leaf kernel on a Bool
k7!(k7_unary_bool, V_BOOL);
//@ k7_unary_str_empty props=C01,C03 tier=quick expect=pass fns=exists_operation,element_empty_operation,is_string_operation,not_operation,inverse_operation :: unary leaf kernel on the empty string: `empty` holds
k7!(k7_unary_str_empty, V_STR_EMPTY);
//@ k7_unary_str_x props=C01:t,C03 tier=quick expect=pass fns=exists_operation,element_empty_operation,is_string_operation,not_operation,inverse_operation :: unary leaf kernel on a 1-char string (symbolic ASCII char): `empty` does not hold
k7!(k7_unary_str_x, V_STR_X);
//@ k7_unary_list_empty props=C01:t,C03 tier=quick expect=pass fns=exists_operation,element_empty_operation,is_list_operation,not_operation,inverse_operation :: unary leaf kernel on an empty list
k7!(k7_unary_list_empty, V_LIST_EMPTY);
//@ k7_unary_list_1 props=C01,C03 tier=thorough expect=pass fns=exists_operation,element_empty_operation,is_list_operation,not_operation,inverse_operation :: unary leaf kernel on a 1-element list
k7!(k7_unary_list_1, V_LIST_1);
//@ k7_unary_map_empty props=C01,C03 tier=thorough expect=pass fns=exists_operation,element_empty_operation,is_struct_operation,not_operation,inverse_operation :: unary leaf kernel on an empty map
k7!(k7_unary_map_empty, V_MAP_EMPTY);
//@ k7_unary_char props=C01,C03 tier=thorough expect=pass fns=exists_operation,element_empty_operation,not_operation,inverse_operation :: unary leaf kernel on a Char
k7!(k7_unary_char, V_CHAR);
//@ k7_unary_unresolved props=C01,C03 tier=quick expect=pass fns=exists_operation,element_empty_operation,not_operation,inverse_operation :: unary leaf kernel on an UnResolved entry: not exists, counts as empty, no is_T holds
k7!(k7_unary_unresolved, V_UNRESOLVED);

