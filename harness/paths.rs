//! target: guard/src/rules/path_value.rs
// K23: the Path helpers that build the slash-separated pointers reported for every value (C10).
#![allow(unused_imports, dead_code)]
use super::*;
use std::mem::forget;

macro_rules! proof {
    ($name:ident, $unwind:literal, $body:block) => {
        #[kani::proof]
        #[kani::unwind($unwind)]
        #[kani::stub(std::fmt::format, crate::verif_stubs::format_stub)]
        #[kani::stub(core::ptr::drop_in_place, crate::verif_stubs::drop_in_place_stub)]
        fn $name() $body
    };
}

fn ascii() -> char {
    let c: char = kani::any();
    kani::assume((c as u32) < 0x80);
    c
}

fn build(cs: &[char]) -> String {
    let mut s = String::with_capacity(8);
    let mut i = 0;
    while i < cs.len() {
        s.push(cs[i]);
        i += 1;
    }
    s
}

macro_rules! k23 {
    ($name:ident, $lb:literal, $lp:literal, $unwind:literal) => {
        proof!($name, $unwind, {
            let mut cb = ['a'; $lb];
            let mut cp = ['a'; $lp];
            let mut i = 0;
            while i < $lb {
                cb[i] = ascii();
                i += 1;
            }
            let mut j = 0;
            while j < $lp {
                cp[j] = ascii();
                j += 1;
            }
            let line: usize = kani::any();
            let col: usize = kani::any();
            let base = Path(build(&cb), Location { line, col });
            let part = build(&cp);
            let r = base.extend_str(&part);
            // pointer = base + '/' + part, byte for byte; the position is kept
            let rb = r.0.as_bytes();
            assert!(rb.len() == $lb + 1 + $lp);
            let mut k = 0;
            while k < $lb {
                assert!(rb[k] == cb[k] as u8);
                k += 1;
            }
            assert!(rb[$lb] == b'/');
            let mut m = 0;
            while m < $lp {
                assert!(rb[$lb + 1 + m] == cp[m] as u8);
                m += 1;
            }
            assert!(r.1.line == line && r.1.col == col);
            kani::cover!(line != col);
            forget(base);
            forget(part);
            forget(r);
        });
    };
}
//@ k23_extend_0_1 props=C10 tier=quick expect=pass fns=Path::extend_str :: Path::extend_str on the root pointer "" and a 1-byte key (symbolic ASCII): result is "/" + key byte for byte, line/col kept
k23!(k23_extend_0_1, 0, 1, 6);
//@ k23_extend_1_0 props=C10 tier=quick expect=pass fns=Path::extend_str :: EMPTY key on a 1-byte pointer: pointer + "/" (an empty key still adds a path segment)
k23!(k23_extend_1_0, 1, 0, 6);
//@ k23_extend_1_1 props=C10 tier=quick expect=pass fns=Path::extend_str :: 1-byte pointer, 1-byte key
k23!(k23_extend_1_1, 1, 1, 6);
//@ k23_extend_2_2 props=C10 tier=quick expect=pass fns=Path::extend_str :: 2-byte pointer and 2-byte key (symbolic ASCII, any position): pointer + "/" + key byte for byte, position kept
k23!(k23_extend_2_2, 2, 2, 8);

//@ k23_wloc props=C10 tier=quick expect=pass fns=Path::with_location :: with_location on a 1-byte pointer: position replaced, pointer kept
proof!(k23_wloc, 6, {
    let c = ascii();
    let base = Path(build(&[c]), Location { line: kani::any(), col: kani::any() });
    let l2: usize = kani::any();
    let c2: usize = kani::any();
    let w = base.with_location(Location { line: l2, col: c2 });
    assert!(w.1.line == l2 && w.1.col == c2);
    assert!(w.0.as_bytes().len() == 1 && w.0.as_bytes()[0] == c as u8);
    kani::cover!(l2 != c2);
    forget(base);
    forget(w);
});

//@ k23_twin props=C10 tier=quick expect=fail fns=Path::extend_str :: vacuity twin of the Path family
proof!(k23_twin, 6, {
    let base = Path(build(&[ascii()]), Location { line: kani::any(), col: kani::any() });
    let r = base.extend_str("k");
    assert!(r.0.len() == 3);
    forget(base);
    forget(r);
    assert!(false, "twin-reached");
});

// ---- extend_usize: the list index rendered in decimal ---------------------------------------------------------
//@ k23_usize_2d props=C10 tier=quick expect=pass fns=Path::extend_usize :: Path::extend_usize on the root pointer for every index < 100: "/" followed by the index in DECIMAL (one digit below 10, two digits otherwise); position kept
proof!(k23_usize_2d, 12, {
    let idx: usize = kani::any();
    kani::assume(idx < 100);
    let line: usize = kani::any();
    let base = Path(String::new(), Location { line, col: 0 });
    let r = base.extend_usize(idx);
    let rb = r.0.as_bytes();
    assert!(rb[0] == b'/');
    if idx < 10 {
        assert!(rb.len() == 2);
        assert!(rb[1] == b'0' + idx as u8);
    } else {
        assert!(rb.len() == 3);
        assert!(rb[1] == b'0' + (idx / 10) as u8);
        assert!(rb[2] == b'0' + (idx % 10) as u8);
    }
    assert!(r.1.line == line);
    kani::cover!(idx >= 10);
    forget(base);
    forget(r);
});
