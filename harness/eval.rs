//! target: guard/src/rules/eval.rs
// K5 / K5p / K6 / K7: CNF combinator, named-rule clause, unary-operator leaf kernel.
// Child module of rules::eval => has access to the private leaf operations.
#![allow(unused_imports, dead_code, unused_variables)]
use super::*;
use std::cell::Cell;
use std::mem::forget;
use crate::rules::path_value::{Location, MapValue, Path};

macro_rules! proof {
    ($name:ident, $unwind:literal, $body:block) => {
        #[kani::proof]
        #[kani::unwind($unwind)]
        #[kani::stub(std::fmt::format, crate::verif_stubs::format_stub)]
        #[kani::stub(std::rc::Rc::drop_slow, crate::verif_stubs::rc_drop_slow_stub)]
        #[kani::stub(fancy_regex::Regex::new, crate::verif_stubs::regex_new_stub)]
        #[kani::stub(fancy_regex::Regex::is_match, crate::verif_stubs::regex_is_match_stub)]
        #[kani::stub(core::ptr::drop_in_place, crate::verif_stubs::drop_in_place_stub)]
        fn $name() $body
    };
}

pub(super) fn p() -> Path {
    Path(String::new(), Location { line: 0, col: 0 })
}

pub(super) fn any_status() -> Status {
    let s: u8 = kani::any();
    kani::assume(s < 3);
    match s {
        0 => Status::PASS,
        1 => Status::FAIL,
        _ => Status::SKIP,
    }
}

// ---------------------------------------------------------------------------------------------
// stub evaluation context: records what the code under test emits; `query`, `rule_status`
// return what the harness planted. Scopes / traversal are NOT covered by harnesses using it.
// ---------------------------------------------------------------------------------------------
pub(super) const PASS: u8 = 0;
pub(super) const FAIL: u8 = 1;
pub(super) const SKIP: u8 = 2;
pub(super) fn code(s: Status) -> u8 {
    match s {
        Status::PASS => PASS,
        Status::FAIL => FAIL,
        Status::SKIP => SKIP,
    }
}

pub(super) struct Ctx {
    pub(super) depth: i32,
    pub(super) min_depth: i32,
    pub(super) starts: u32,
    pub(super) ends: u32,
    // Disjunction records in emission order
    pub(super) disj: [u8; 4],
    pub(super) n_disj: usize,
    // ClauseValueCheck records
    pub(super) n_success: u32,
    pub(super) n_dependent: u32,
    pub(super) n_unary_fail: u32,
    pub(super) n_cmp_fail: u32,
    pub(super) n_in_fail: u32,
    pub(super) n_noval: u32,
    // GuardClauseBlockCheck (clause level) record
    pub(super) n_block: u32,
    pub(super) block_status: u8,
    // planted answers
    pub(super) rule: u8, // 0..2 status, 3 => Err
    pub(super) rule_calls: u32,
    pub(super) lhs: Option<Vec<QueryResult>>,
    pub(super) rhs: Option<Vec<QueryResult>>,
    pub(super) query_calls: u32,
}

impl Ctx {
    pub(super) fn new() -> Ctx {
        Ctx {
            depth: 0,
            min_depth: 0,
            starts: 0,
            ends: 0,
            disj: [9; 4],
            n_disj: 0,
            n_success: 0,
            n_dependent: 0,
            n_unary_fail: 0,
            n_cmp_fail: 0,
            n_in_fail: 0,
            n_noval: 0,
            n_block: 0,
            block_status: 9,
            rule: 0,
            rule_calls: 0,
            lhs: None,
            rhs: None,
            query_calls: 0,
        }
    }
    pub(super) fn balanced(&self) -> bool {
        self.depth == 0 && self.min_depth == 0 && self.starts == self.ends
    }
}

impl<'value> RecordTracer<'value> for Ctx {
    fn start_record(&mut self, _context: &str) -> Result<()> {
        self.depth += 1;
        self.starts += 1;
        Ok(())
    }
    fn end_record(&mut self, _context: &str, record: RecordType<'value>) -> Result<()> {
        self.depth -= 1;
        self.ends += 1;
        if self.depth < self.min_depth {
            self.min_depth = self.depth;
        }
        match &record {
            RecordType::Disjunction(bc) => {
                if self.n_disj < 4 {
                    self.disj[self.n_disj] = code(bc.status);
                }
                self.n_disj += 1;
            }
            RecordType::GuardClauseBlockCheck(bc) => {
                self.n_block += 1;
                self.block_status = code(bc.status);
            }
            RecordType::ClauseValueCheck(cc) => match cc {
                ClauseCheck::Success => self.n_success += 1,
                ClauseCheck::DependentRule(_) => self.n_dependent += 1,
                ClauseCheck::Unary(_) => self.n_unary_fail += 1,
                ClauseCheck::Comparison(_) => self.n_cmp_fail += 1,
                ClauseCheck::InComparison(_) => self.n_in_fail += 1,
                ClauseCheck::NoValueForEmptyCheck(_) => self.n_noval += 1,
                _ => {}
            },
            _ => {}
        }
        forget(record);
        Ok(())
    }
}

impl<'value, 'loc: 'value> EvalContext<'value, 'loc> for Ctx {
    fn query(&mut self, _query: &'value [QueryPart<'loc>]) -> Result<Vec<QueryResult>> {
        self.query_calls += 1;
        // first call = the clause's LHS, second = a query RHS
        if self.query_calls == 1 {
            match self.lhs.take() {
                Some(v) => Ok(v),
                None => Err(Error::RetrievalError(String::new())),
            }
        } else {
            match self.rhs.take() {
                Some(v) => Ok(v),
                None => Err(Error::RetrievalError(String::new())),
            }
        }
    }
    fn find_parameterized_rule(&mut self, _rule_name: &str) -> Result<&'value ParameterizedRule<'loc>> {
        Err(Error::MissingValue(String::new()))
    }
    fn root(&mut self) -> Rc<PathAwareValue> {
        Rc::new(PathAwareValue::Null(p()))
    }
    fn rule_status(&mut self, _rule_name: &'value str) -> Result<Status> {
        self.rule_calls += 1;
        match self.rule {
            0 => Ok(Status::PASS),
            1 => Ok(Status::FAIL),
            2 => Ok(Status::SKIP),
            _ => Err(Error::MissingValue(String::new())),
        }
    }
    fn resolve_variable(&mut self, _variable_name: &'value str) -> Result<Vec<QueryResult>> {
        Err(Error::MissingValue(String::new()))
    }
    fn add_variable_capture_key(&mut self, _variable_name: &'value str, _key: Rc<PathAwareValue>) -> Result<()> {
        Ok(())
    }
}

// ---------------------------------------------------------------------------------------------
// K5: CNF combinator
// ---------------------------------------------------------------------------------------------
#[derive(Clone, Copy)]
struct Leaf {
    line: usize,
    alt: usize,
}

pub(super) const ERR: u8 = 3;

/// documented status of one `or` line given the leaf statuses (PASS iff one alternative passed,
/// FAIL iff none passed and one failed, else SKIP)
fn line_oracle(row: &[u8]) -> u8 {
    let mut any_pass = false;
    let mut any_fail = false;
    let mut i = 0;
    while i < row.len() {
        if row[i] == PASS {
            any_pass = true;
        }
        if row[i] == FAIL {
            any_fail = true;
        }
        i += 1;
    }
    if any_pass {
        PASS
    } else if any_fail {
        FAIL
    } else {
        SKIP
    }
}

macro_rules! k5 {
    ($name:ident, $lines:literal, $alts:literal, $with_err:literal, $unwind:literal) => {
        proof!($name, $unwind, {
            // leaf outcomes: symbolic in {PASS, FAIL, SKIP} (+ Err when $with_err)
            let mut st = [[PASS; $alts]; $lines];
            let mut l = 0;
            while l < $lines {
                let mut a = 0;
                while a < $alts {
                    let v: u8 = kani::any();
                    kani::assume(v < if $with_err { 4 } else { 3 });
                    st[l][a] = v;
                    a += 1;
                }
                l += 1;
            }
            let evaluated: [[Cell<bool>; $alts]; $lines] = Default::default();
            let mut conj: Conjunctions<Leaf> = Vec::with_capacity($lines);
            let mut l = 0;
            while l < $lines {
                let mut row = Vec::with_capacity($alts);
                let mut a = 0;
                while a < $alts {
                    row.push(Leaf { line: l, alt: a });
                    a += 1;
                }
                conj.push(row);
                l += 1;
            }
            let mut ctx = Ctx::new();
            let r = eval_conjunction_clauses(&conj, &mut ctx, |leaf: &Leaf, _r: &mut dyn EvalContext<'_, '_>| {
                evaluated[leaf.line][leaf.alt].set(true);
                match st[leaf.line][leaf.alt] {
                    PASS => Ok(Status::PASS),
                    FAIL => Ok(Status::FAIL),
                    SKIP => Ok(Status::SKIP),
                    _ => Err(Error::NotComparable(String::new())),
                }
            });
            // ---- oracle: walk in document order until the first Err
            let mut any_line_fail = false;
            let mut any_line_pass = false;
            let mut err_seen = false;
            let mut exp_disj = 0usize;
            let mut l = 0;
            while l < $lines && !err_seen {
                let mut passed = false;
                let mut failed = false;
                let mut a = 0;
                while a < $alts {
                    // alternatives after the first PASS (or after an error) are not evaluated
                    let should_eval = !passed && !err_seen;
                    assert!(evaluated[l][a].get() == should_eval);
                    if should_eval {
                        match st[l][a] {
                            PASS => passed = true,
                            FAIL => failed = true,
                            SKIP => {}
                            _ => err_seen = true,
                        }
                    }
                    a += 1;
                }
                let ls = if passed { PASS } else if failed { FAIL } else { SKIP };
                if $alts > 1 {
                    // exactly one Disjunction record per multi-alternative line, carrying the line status
                    // (FAIL when the line was cut short by an error)
                    assert!(ctx.disj[exp_disj] == if err_seen { FAIL } else { ls });
                    exp_disj += 1;
                }
                if !err_seen {
                    if ls == FAIL {
                        any_line_fail = true;
                    }
                    if ls == PASS {
                        any_line_pass = true;
                    }
                }
                l += 1;
            }
            // lines after an error are not evaluated at all
            while l < $lines {
                let mut a = 0;
                while a < $alts {
                    assert!(!evaluated[l][a].get());
                    a += 1;
                }
                l += 1;
            }
            assert!(ctx.n_disj == exp_disj);
            assert!(ctx.balanced());
            match &r {
                Ok(s) => {
                    assert!(!err_seen);
                    let exp = if any_line_fail { FAIL } else if any_line_pass { PASS } else { SKIP };
                    assert!(code(*s) == exp);
                }
                Err(Error::NotComparable(_)) => assert!(err_seen),
                Err(_) => assert!(false),
            }
            kani::cover!(matches!(r, Ok(Status::PASS)));
            kani::cover!(matches!(r, Ok(Status::FAIL)));
            kani::cover!(matches!(r, Ok(Status::SKIP)));
            kani::cover!(r.is_err() || !$with_err);
            forget(r);
            forget(conj);
        });
    };
}

//@ k5_cnf_1x1 props=C02,C01,C04,C08:t tier=quick expect=pass fns=eval_conjunction_clauses :: CNF combinator, 1 line x 1 alternative, leaf outcome symbolic in {PASS,FAIL,SKIP,Err}: status = documented rule; no Disjunction record for a single alternative; start/end balanced; Err propagates
k5!(k5_cnf_1x1, 1, 1, true, 4);
//@ k5_cnf_1x2 props=C02,C01,C04,C08:t tier=quick expect=pass fns=eval_conjunction_clauses :: CNF 1x2, leaves symbolic incl. Err: short-circuit after first PASS (alternative 2 not evaluated), one Disjunction record with the line status, balanced, Err closes the open record
k5!(k5_cnf_1x2, 1, 2, true, 5);
//@ k5_cnf_2x1 props=C02,C01,C04,C08:t tier=quick expect=pass fns=eval_conjunction_clauses :: CNF 2x1, leaves symbolic incl. Err: every line evaluated (no short-circuit across lines) unless an error aborts; FAIL iff a line failed, PASS iff none failed and one passed, else SKIP
k5!(k5_cnf_2x1, 2, 1, true, 5);
//@ k5_cnf_2x2 props=C02,C01,C04,C08 tier=quick expect=pass fns=eval_conjunction_clauses :: CNF 2x2 (4^4 leaf outcome vectors incl. Err in one query): status, evaluation set, Disjunction records (count, order, status), balance, error propagation
k5!(k5_cnf_2x2, 2, 2, true, 5);
//@ k5_cnf_3x1 props=C02,C04 tier=thorough expect=pass fns=eval_conjunction_clauses :: CNF 3x1, leaves in {PASS,FAIL,SKIP,Err}
k5!(k5_cnf_3x1, 3, 1, true, 6);
//@ k5_cnf_1x3 props=C02,C04 tier=thorough expect=pass fns=eval_conjunction_clauses :: CNF 1x3, leaves in {PASS,FAIL,SKIP,Err}
k5!(k5_cnf_1x3, 1, 3, true, 6);
//@ k5_cnf_2x3 props=C02,C04 tier=thorough expect=pass fns=eval_conjunction_clauses :: CNF 2x3, leaves in {PASS,FAIL,SKIP}
k5!(k5_cnf_2x3, 2, 3, false, 6);
//@ k5_cnf_3x2 props=C02,C04 tier=thorough expect=pass fns=eval_conjunction_clauses :: CNF 3x2, leaves in {PASS,FAIL,SKIP}
k5!(k5_cnf_3x2, 3, 2, false, 6);
//@ k5_cnf_3x3 props=C02,C04 tier=thorough expect=pass fns=eval_conjunction_clauses :: CNF 3x3, all 3^9 leaf status vectors in one query
k5!(k5_cnf_3x3, 3, 3, false, 6);

// ---- K5p: order / repetition independence of the real combinator --------------------------------
fn run_cnf(conj: &Conjunctions<Leaf>, st: &[[u8; 3]; 3]) -> u8 {
    let mut ctx = Ctx::new();
    let r = eval_conjunction_clauses(conj, &mut ctx, |leaf: &Leaf, _r: &mut dyn EvalContext<'_, '_>| {
        Ok(match st[leaf.line][leaf.alt] {
            PASS => Status::PASS,
            FAIL => Status::FAIL,
            _ => Status::SKIP,
        })
    });
    let v = match &r {
        Ok(s) => code(*s),
        Err(_) => ERR,
    };
    assert!(ctx.balanced());
    forget(r);
    v
}

const PERMS3: [[usize; 3]; 6] = [[0, 1, 2], [0, 2, 1], [1, 0, 2], [1, 2, 0], [2, 0, 1], [2, 1, 0]];

macro_rules! k5p {
    ($name:ident, $lines:literal, $alts:literal, $unwind:literal) => {
        proof!($name, $unwind, {
            let mut st = [[SKIP; 3]; 3];
            let mut l = 0;
            while l < $lines {
                let mut a = 0;
                while a < $alts {
                    let v: u8 = kani::any();
                    kani::assume(v < 3);
                    st[l][a] = v;
                    a += 1;
                }
                l += 1;
            }
            // symbolic permutation of lines and (independently, per file) of alternatives
            let pl: usize = kani::any();
            let pa: usize = kani::any();
            kani::assume(pl < 6 && pa < 6);
            // keep only permutations of the first $lines / $alts indices
            let mut l = 0;
            while l < 3 {
                if l >= $lines {
                    kani::assume(PERMS3[pl][l] == l);
                }
                if l >= $alts {
                    kani::assume(PERMS3[pa][l] == l);
                }
                l += 1;
            }
            // duplication: optionally repeat line `dl` at the end, and alternative `da` at the end of each line
            let dup_line: bool = kani::any();
            let dup_alt: bool = kani::any();
            let dl: usize = kani::any();
            let da: usize = kani::any();
            kani::assume(dl < $lines && da < $alts);
            let mut base: Conjunctions<Leaf> = Vec::with_capacity(4);
            let mut perm: Conjunctions<Leaf> = Vec::with_capacity(4);
            let mut l = 0;
            while l < $lines {
                let mut row = Vec::with_capacity(4);
                let mut prow = Vec::with_capacity(4);
                let mut a = 0;
                while a < $alts {
                    row.push(Leaf { line: l, alt: a });
                    prow.push(Leaf { line: PERMS3[pl][l], alt: PERMS3[pa][a] });
                    a += 1;
                }
                if dup_alt {
                    prow.push(Leaf { line: PERMS3[pl][l], alt: da });
                }
                base.push(row);
                perm.push(prow);
                l += 1;
            }
            if dup_line {
                let mut prow = Vec::with_capacity(4);
                let mut a = 0;
                while a < $alts {
                    prow.push(Leaf { line: dl, alt: a });
                    a += 1;
                }
                perm.push(prow);
            }
            let s1 = run_cnf(&base, &st);
            let s2 = run_cnf(&perm, &st);
            assert!(s1 == s2);
            assert!(s1 != ERR);
            kani::cover!(s1 == PASS && pl != 0);
            kani::cover!(s1 == FAIL && dup_line);
            kani::cover!(s1 == SKIP);
            forget(base);
            forget(perm);
        });
    };
}
//@ k5p_perm_2x2 props=C04,C02:t tier=quick expect=pass fns=eval_conjunction_clauses :: order independence: real combinator on a 2x2 CNF vs the same CNF with lines and alternatives permuted (symbolic permutation) and optionally one line / one alternative duplicated: same status for all leaf status vectors
k5p!(k5p_perm_2x2, 2, 2, 6);
//@ k5p_perm_3x2 props=C04 tier=thorough expect=pass fns=eval_conjunction_clauses :: order independence 3 lines x 2 alternatives, all 6 line permutations, duplication
k5p!(k5p_perm_3x2, 3, 2, 7);
//@ k5p_perm_2x3 props=C04 tier=thorough expect=pass fns=eval_conjunction_clauses :: order independence 2 lines x 3 alternatives, all 6 alternative permutations, duplication
k5p!(k5p_perm_2x3, 2, 3, 7);
//@ k5p_perm_3x3 props=C04 tier=thorough expect=pass fns=eval_conjunction_clauses :: order independence 3x3, all 36 permutation pairs, duplication
k5p!(k5p_perm_3x3, 3, 3, 7);

// ---- K6: named-rule clause -----------------------------------------------------------------------
//@ k6_named_rule props=C02,C03,C01,C08 tier=quick expect=pass fns=eval_guard_named_clause :: clause naming another rule: dependent status symbolic in {PASS,FAIL,SKIP,Err}, negation symbolic: PASS iff (dep == PASS) xor negation, never SKIP; DependentRule record iff FAIL; error propagates with the record closed; unreachable!() never reached
proof!(k6_named_rule, 4, {
    let mut name = String::new();
    name.push('r');
    let neg: bool = kani::any();
    let gnc = GuardNamedRuleClause {
        dependent_rule: name,
        negation: neg,
        custom_message: None,
        location: FileLocation { line: 0, column: 0, file_name: "" },
    };
    let mut ctx = Ctx::new();
    let dep: u8 = kani::any();
    kani::assume(dep < 4);
    ctx.rule = dep;
    let r = eval_guard_named_clause(&gnc, &mut ctx);
    assert!(ctx.balanced() && ctx.starts == 1);
    assert!(ctx.rule_calls == 1);
    match &r {
        Ok(s) => {
            assert!(dep != 3);
            let exp_pass = (dep == PASS) != neg;
            assert!(code(*s) == if exp_pass { PASS } else { FAIL });
            assert!(ctx.n_success == exp_pass as u32);
            assert!(ctx.n_dependent == (!exp_pass) as u32);
        }
        Err(Error::MissingValue(_)) => {
            assert!(dep == 3);
            assert!(ctx.n_dependent == 1 && ctx.n_success == 0);
        }
        Err(_) => assert!(false),
    }
    kani::cover!(matches!(r, Ok(Status::PASS)) && neg && dep == SKIP);
    kani::cover!(matches!(r, Ok(Status::FAIL)) && neg);
    kani::cover!(r.is_err());
    forget(r);
    forget(gnc);
});

// ---- K7: unary leaf kernel -----------------------------------------------------------------------
// kinds of a single query result
pub(super) const V_NULL: u8 = 0;
pub(super) const V_INT: u8 = 1;
pub(super) const V_FLOAT: u8 = 2;
pub(super) const V_BOOL: u8 = 3;
pub(super) const V_STR_EMPTY: u8 = 4;
pub(super) const V_STR_X: u8 = 5;
pub(super) const V_LIST_EMPTY: u8 = 6;
pub(super) const V_LIST_1: u8 = 7;
pub(super) const V_MAP_EMPTY: u8 = 8;
pub(super) const V_CHAR: u8 = 9;
pub(super) const V_UNRESOLVED: u8 = 10;

pub(super) fn mk_value(kind: u8) -> PathAwareValue {
    match kind {
        V_NULL => PathAwareValue::Null(p()),
        V_INT => PathAwareValue::Int((p(), kani::any())),
        V_FLOAT => PathAwareValue::Float((p(), kani::any())),
        V_BOOL => PathAwareValue::Bool((p(), kani::any())),
        V_STR_EMPTY => PathAwareValue::String((p(), String::new())),
        V_STR_X => {
            let mut s = String::new();
            let c: char = kani::any();
            kani::assume((c as u32) < 0x80);
            s.push(c);
            PathAwareValue::String((p(), s))
        }
        V_LIST_EMPTY => PathAwareValue::List((p(), Vec::new())),
        V_LIST_1 => {
            let mut v = Vec::with_capacity(1);
            v.push(PathAwareValue::Int((p(), kani::any())));
            PathAwareValue::List((p(), v))
        }
        V_MAP_EMPTY => PathAwareValue::Map((
            p(),
            MapValue { keys: Vec::new(), values: indexmap::IndexMap::with_hasher(crate::verif_stubs::random_state_stub()) },
        )),
        _ => PathAwareValue::Char((p(), kani::any())),
    }
}

pub(super) fn mk_qr(kind: u8, literal: bool) -> QueryResult {
    if kind == V_UNRESOLVED {
        QueryResult::UnResolved(UnResolved {
            traversed_to: Rc::new(PathAwareValue::Null(p())),
            remaining_query: String::new(),
            reason: None,
        })
    } else if literal {
        QueryResult::Literal(Rc::new(mk_value(kind)))
    } else {
        QueryResult::Resolved(Rc::new(mk_value(kind)))
    }
}

pub(super) const R_FALSE: u8 = 0;
pub(super) const R_TRUE: u8 = 1;
pub(super) const R_ERR: u8 = 2;
pub(super) fn ob(r: Result<bool>) -> u8 {
    let v = match &r {
        Ok(true) => R_TRUE,
        Ok(false) => R_FALSE,
        Err(_) => R_ERR,
    };
    forget(r);
    v
}
pub(super) fn neg(v: u8) -> u8 {
    match v {
        R_TRUE => R_FALSE,
        R_FALSE => R_TRUE,
        _ => R_ERR,
    }
}

/// laws relating an operation to its two negations (operator-level `!op` and prefix `not`)
fn negation_laws<O: Fn(&QueryResult) -> Result<bool> + Copy>(op: O, q: &QueryResult, plain: u8) {
    // operator-level negation
    assert!(ob(not_operation(op)(q)) == neg(plain));
    // prefix negation (inverse = true) and no prefix (inverse = false)
    assert!(ob(inverse_operation(op, false)(q)) == plain);
    assert!(ob(inverse_operation(op, true)(q)) == neg(plain));
    // prefix and operator-level negation coincide; double negation restores the original
    assert!(ob(inverse_operation(not_operation(op), false)(q)) == neg(plain));
    assert!(ob(inverse_operation(not_operation(op), true)(q)) == plain);
}

macro_rules! k7 {
    ($name:ident, $kind:expr) => {
        proof!($name, 4, {
            let literal: bool = kani::any();
            let q = mk_qr($kind, literal);
            let k: u8 = $kind;
            let resolved = k != V_UNRESOLVED;
            // exists <=> resolved
            let ex = ob(exists_operation(&q));
            assert!(ex == if resolved { R_TRUE } else { R_FALSE });
            negation_laws(exists_operation, &q, ex);
            // empty: strings/lists/maps by length, unresolved = true, numbers = evaluation error;
            // for bool / null / char the docs are silent: only consistency of the negations is asserted
            let em = ob(element_empty_operation(&q));
            match k {
                V_STR_EMPTY | V_LIST_EMPTY | V_MAP_EMPTY | V_UNRESOLVED => assert!(em == R_TRUE),
                V_STR_X | V_LIST_1 => assert!(em == R_FALSE),
                V_INT | V_FLOAT => assert!(em == R_ERR),
                _ => {}
            }
            negation_laws(element_empty_operation, &q, em);
            // is_T <=> kind
            let is_s = ob(is_string_operation(&q));
            assert!(is_s == if k == V_STR_EMPTY || k == V_STR_X { R_TRUE } else { R_FALSE });
            negation_laws(is_string_operation, &q, is_s);
            let is_l = ob(is_list_operation(&q));
            assert!(is_l == if k == V_LIST_EMPTY || k == V_LIST_1 { R_TRUE } else { R_FALSE });
            negation_laws(is_list_operation, &q, is_l);
            let is_m = ob(is_struct_operation(&q));
            assert!(is_m == if k == V_MAP_EMPTY { R_TRUE } else { R_FALSE });
            negation_laws(is_struct_operation, &q, is_m);
            let is_i = ob(is_int_operation(&q));
            assert!(is_i == if k == V_INT { R_TRUE } else { R_FALSE });
            negation_laws(is_int_operation, &q, is_i);
            let is_f = ob(is_float_operation(&q));
            assert!(is_f == if k == V_FLOAT { R_TRUE } else { R_FALSE });
            negation_laws(is_float_operation, &q, is_f);
            let is_b = ob(is_bool_operation(&q));
            assert!(is_b == if k == V_BOOL { R_TRUE } else { R_FALSE });
            negation_laws(is_bool_operation, &q, is_b);
            let is_n = ob(is_null_operation(&q));
            assert!(is_n == if k == V_NULL { R_TRUE } else { R_FALSE });
            negation_laws(is_null_operation, &q, is_n);
            kani::cover!(literal);
            kani::cover!(!literal);
            forget(q);
        });
    };
}
//@ k7_unary_null props=C01,C03 tier=quick expect=pass fns=exists_operation,element_empty_operation,is_string_operation,is_list_operation,is_struct_operation,is_int_operation,is_float_operation,is_bool_operation,is_null_operation,not_operation,inverse_operation :: unary leaf kernel on a Null value (Resolved or Literal, symbolic): truth table of the 9 unary operators + negation laws (!op, prefix not, double negation; errors never inverted into success)
k7!(k7_unary_null, V_NULL);
//@ k7_unary_int props=C01,C03,C08 tier=quick expect=pass fns=exists_operation,element_empty_operation,is_int_operation,not_operation,inverse_operation :: unary leaf kernel on an Int (any i64): `empty` on a number is an evaluation error, also under every negation
k7!(k7_unary_int, V_INT);
//@ k7_unary_float props=C01,C03 tier=thorough expect=pass fns=exists_operation,element_empty_operation,is_float_operation,not_operation,inverse_operation :: unary leaf kernel on a Float (any f64)
k7!(k7_unary_float, V_FLOAT);
//@ k7_unary_bool props=C01,C03 tier=thorough expect=pass fns=exists_operation,element_empty_operation,is_bool_operation,not_operation,inverse_operation :: unary leaf kernel on a Bool
k7!(k7_unary_bool, V_BOOL);
//@ k7_unary_str_empty props=C01,C03 tier=quick expect=pass fns=exists_operation,element_empty_operation,is_string_operation,not_operation,inverse_operation :: unary leaf kernel on the empty string: `empty` holds
k7!(k7_unary_str_empty, V_STR_EMPTY);
//@ k7_unary_str_x props=C01,C03 tier=quick expect=pass fns=exists_operation,element_empty_operation,is_string_operation,not_operation,inverse_operation :: unary leaf kernel on a 1-char string (symbolic ASCII char): `empty` does not hold
k7!(k7_unary_str_x, V_STR_X);
//@ k7_unary_list_empty props=C01,C03 tier=quick expect=pass fns=exists_operation,element_empty_operation,is_list_operation,not_operation,inverse_operation :: unary leaf kernel on an empty list
k7!(k7_unary_list_empty, V_LIST_EMPTY);
//@ k7_unary_list_1 props=C01,C03 tier=thorough expect=pass fns=exists_operation,element_empty_operation,is_list_operation,not_operation,inverse_operation :: unary leaf kernel on a 1-element list
k7!(k7_unary_list_1, V_LIST_1);
//@ k7_unary_map_empty props=C01,C03 tier=thorough expect=pass fns=exists_operation,element_empty_operation,is_struct_operation,not_operation,inverse_operation :: unary leaf kernel on an empty map
k7!(k7_unary_map_empty, V_MAP_EMPTY);
//@ k7_unary_char props=C01,C03 tier=thorough expect=pass fns=exists_operation,element_empty_operation,not_operation,inverse_operation :: unary leaf kernel on a Char
k7!(k7_unary_char, V_CHAR);
//@ k7_unary_unresolved props=C01,C03 tier=quick expect=pass fns=exists_operation,element_empty_operation,not_operation,inverse_operation :: unary leaf kernel on an UnResolved entry: not exists, counts as empty, no is_T holds
k7!(k7_unary_unresolved, V_UNRESOLVED);

//@ k_eval_twin props=C01,C02,C03,C04,C08 tier=quick expect=fail fns=eval_guard_named_clause :: vacuity twin for the eval.rs family: same stub context and construction as k6, final assert(false) must be reached
proof!(k_eval_twin, 4, {
    let mut name = String::new();
    name.push('r');
    let gnc = GuardNamedRuleClause {
        dependent_rule: name,
        negation: kani::any(),
        custom_message: None,
        location: FileLocation { line: 0, column: 0, file_name: "" },
    };
    let mut ctx = Ctx::new();
    ctx.rule = 0;
    let r = eval_guard_named_clause(&gnc, &mut ctx);
    assert!(ctx.balanced());
    forget(r);
    forget(gnc);
    assert!(false, "twin-reached");
});
