//! target: guard/src/commands/validate.rs
// K14: the 100-byte preview slice in build_data_file's error branch.
#![allow(unused_imports, dead_code, unused_variables)]
use super::*;
use std::mem::forget;

fn read_from_fails(_s: &str) -> crate::rules::Result<crate::rules::values::MarkedValue> {
    Err(Error::ParseError(String::new()))
}

macro_rules! k14 {
    ($name:ident, $pos:literal, $w:literal) => {
        #[kani::proof]
        #[kani::unwind(105)]
        #[kani::stub(std::fmt::format, crate::verif_stubs::format_stub)]
        #[kani::stub(core::ptr::drop_in_place, crate::verif_stubs::drop_in_place_stub)]
        #[kani::stub(crate::rules::values::read_from, read_from_fails)]
        #[kani::stub(str::trim, crate::verif_stubs::trim_identity)]
        fn $name() {
            // malformed data file: 102 characters, one of them (at char index $pos) a
            // $w-byte character, the rest ASCII 'b'
            // the character's value is irrelevant to the slice arithmetic (only its width and position
            // matter), and a symbolic one makes the boundary search loop unroll over symbolic bytes: concrete
            let c: char = if $w == 2 { '\u{e9}' } else { '\u{20ac}' };
            let mut content = String::with_capacity(110);
            let mut i = 0;
            while i < 102 {
                if i == $pos {
                    content.push(c);
                } else {
                    content.push('b');
                }
                i += 1;
            }
            let mut name = String::new();
            name.push('d');
            let r = build_data_file(content, name);
            // malformed data is reported as a parse error, never a panic
            assert!(matches!(&r, Err(Error::ParseError(_))));
            kani::cover!(r.is_err());
            forget(r);
        }
    };
}
//@ k14_slice_p97_w3 props=C08 tier=thorough expect=pass fns=build_data_file :: malformed data file of 102 chars whose 3-byte char starts at byte 97 (spans the 100-byte preview cut): ParseError, no panic [read_from stubbed to fail, str::trim stubbed to identity]
k14!(k14_slice_p97_w3, 97, 3);
//@ k14_slice_p98_w3 props=C08 tier=thorough expect=pass fns=build_data_file :: same, 3-byte char starting at byte 98
k14!(k14_slice_p98_w3, 98, 3);
//@ k14_slice_p99_w2 props=C08 tier=quick expect=pass fns=build_data_file :: same, 2-byte char at bytes 99..101 (byte 100 is inside the character)
k14!(k14_slice_p99_w2, 99, 2);
//@ k14_slice_p99_w3 props=C08 tier=thorough expect=pass fns=build_data_file :: same, 3-byte char starting at byte 99
k14!(k14_slice_p99_w3, 99, 3);
//@ k14_slice_p100_w2 props=C08 tier=thorough expect=pass fns=build_data_file :: same, 2-byte char starting exactly at the cut (byte 100): boundary is fine
k14!(k14_slice_p100_w2, 100, 2);
//@ k14_slice_p96_w3 props=C08 tier=thorough expect=pass fns=build_data_file :: same, 3-byte char at bytes 96..99 (ends before the cut)
k14!(k14_slice_p96_w3, 96, 3);

//@ k14_twin props=C08 tier=quick expect=fail fns=build_data_file :: vacuity twin of the data-file slice family (all-ASCII content)
#[kani::proof]
#[kani::unwind(105)]
#[kani::stub(std::fmt::format, crate::verif_stubs::format_stub)]
#[kani::stub(core::ptr::drop_in_place, crate::verif_stubs::drop_in_place_stub)]
#[kani::stub(crate::rules::values::read_from, read_from_fails)]
#[kani::stub(str::trim, crate::verif_stubs::trim_identity)]
fn k14_twin() {
    let mut content = String::with_capacity(110);
    let mut i = 0;
    while i < 102 {
        content.push('b');
        i += 1;
    }
    let mut name = String::new();
    name.push('d');
    let r = build_data_file(content, name);
    assert!(r.is_err());
    forget(r);
    assert!(false, "twin-reached");
}
