//! target: guard/src/rules/eval.rs
//! requires: eval_common.rs
// K8bm: the binary path of eval_guard_access_clause / binary_operation (records, some/all fold, prefix
// negation) with the operator layer (eval/operators.rs `(CmpOperator, bool)::compare`) replaced by a MODEL of
// its documented behaviour on scalar-vs-single-literal comparisons. The model calls the real comparison
// kernel (compare_eq/lt/le/gt/ge, proved separately by K1). operators.rs itself does not terminate under CBMC.
#![allow(unused_imports, dead_code, unused_variables)]
use super::operators::{Compare, ComparisonResult, EvalResult, LhsRhsPair, NotComparable, ValueEvalResult};
use super::verif_eval_common::*;
use super::*;
use crate::rules::path_value::{compare_ge, compare_gt, compare_le, compare_lt, Location, MapValue, Path};
use std::mem::forget;

/// documented behaviour of `X <op> v` / `X !<op> v` for each selected value of X against one literal v:
/// unresolved -> reported as such (FAIL at clause level); comparable -> truth xor operator-level not;
/// not comparable -> NotComparable (stays FAIL under negation)
fn compare_model(
    this: &(CmpOperator, bool),
    lhs: &[QueryResult],
    rhs: &[QueryResult],
) -> crate::rules::Result<EvalResult> {
    if lhs.is_empty() || rhs.is_empty() {
        return Ok(EvalResult::Skip);
    }
    let r = match &rhs[0] {
        QueryResult::Literal(v) | QueryResult::Resolved(v) => Rc::clone(v),
        QueryResult::UnResolved(ur) => Rc::clone(&ur.traversed_to),
    };
    let mut results = Vec::with_capacity(lhs.len());
    for each in lhs {
        match each {
            QueryResult::UnResolved(ur) => results.push(ValueEvalResult::LhsUnresolved(ur.clone())),
            QueryResult::Literal(l) | QueryResult::Resolved(l) => {
                let o = match this.0 {
                    CmpOperator::Eq => compare_eq(l, &r),
                    CmpOperator::Lt => compare_lt(l, &r),
                    CmpOperator::Le => compare_le(l, &r),
                    CmpOperator::Gt => compare_gt(l, &r),
                    _ => compare_ge(l, &r),
                };
                let pair = LhsRhsPair { lhs: Rc::clone(l), rhs: Rc::clone(&r) };
                match o {
                    Ok(b) => {
                        if b != this.1 {
                            results.push(ValueEvalResult::ComparisonResult(ComparisonResult::Success(Compare::Value(pair))))
                        } else {
                            results.push(ValueEvalResult::ComparisonResult(ComparisonResult::Fail(Compare::Value(pair))))
                        }
                    }
                    Err(e) => {
                        forget(e);
                        results.push(ValueEvalResult::ComparisonResult(ComparisonResult::NotComparable(NotComparable {
                            reason: String::new(),
                            pair,
                        })))
                    }
                }
            }
        }
    }
    Ok(EvalResult::Result(results))
}

macro_rules! proof {
    ($name:ident, $unwind:literal, $body:block) => {
        #[kani::proof]
        #[kani::unwind($unwind)]
        #[kani::stub(std::fmt::format, crate::verif_stubs::format_stub)]
        #[kani::stub(std::rc::Rc::drop_slow, crate::verif_stubs::rc_drop_slow_stub)]
        #[kani::stub(fancy_regex::Regex::new, crate::verif_stubs::regex_new_stub)]
        #[kani::stub(fancy_regex::Regex::is_match, crate::verif_stubs::regex_is_match_stub)]
        #[kani::stub(core::ptr::drop_in_place, crate::verif_stubs::drop_in_place_stub)]
        #[kani::stub(std::hash::RandomState::new, crate::verif_stubs::random_state_stub)]
        #[kani::stub(<(crate::rules::CmpOperator, bool) as crate::rules::eval::operators::Comparator>::compare, compare_model)]
        fn $name() $body
    };
}

fn key_query(name: char) -> Vec<QueryPart<'static>> {
    let mut s = String::new();
    s.push(name);
    let mut q = Vec::with_capacity(1);
    q.push(QueryPart::Key(s));
    q
}

fn status_of(r: &Result<Status>) -> u8 {
    match r {
        Ok(s) => code(*s),
        Err(_) => ERR,
    }
}

fn cmp_doc(op: CmpOperator, l: i64, r: i64) -> bool {
    match op {
        CmpOperator::Eq => l == r,
        CmpOperator::Lt => l < r,
        CmpOperator::Le => l <= r,
        CmpOperator::Gt => l > r,
        _ => l >= r,
    }
}

macro_rules! k8bm {
    ($name:ident, $op:expr, $n:literal, $with_unres:literal, $unwind:literal) => {
        proof!($name, $unwind, {
            let not_op: bool = kani::any();
            let negation: bool = kani::any();
            let all: bool = kani::any();
            let rv: i64 = kani::any();
            let clause = GuardAccessClause {
                access_clause: AccessClause {
                    query: AccessQuery { query: key_query('a'), match_all: all },
                    comparator: ($op, not_op),
                    compare_with: Some(LetValue::Value(PathAwareValue::Int((p(), rv)))),
                    custom_message: None,
                    location: FileLocation { line: 0, column: 0, file_name: "" },
                },
                negation,
            };
            let mut ctx = Ctx::new();
            let mut lhs = Vec::with_capacity($n + 1);
            let mut vals = [0i64; $n];
            let mut i = 0;
            while i < $n {
                vals[i] = kani::any();
                lhs.push(QueryResult::Resolved(Rc::new(PathAwareValue::Int((p(), vals[i])))));
                i += 1;
            }
            if $with_unres {
                lhs.push(mk_qr(V_UNRESOLVED, false));
            }
            ctx.lhs = Some(lhs);
            let r = eval_guard_access_clause(&clause, &mut ctx);
            let got = status_of(&r);
            let mut passes = 0u32;
            let mut fails = 0u32;
            let mut i = 0;
            while i < $n {
                let truth = cmp_doc($op, vals[i], rv) != not_op; // operator-level negation (`!=`, `!<` ...)
                let truth = truth != negation; // prefix `not`: never ignored (C03)
                if truth { passes += 1 } else { fails += 1 }
                i += 1;
            }
            if $with_unres {
                fails += 1; // unresolved paths count as FAIL for comparisons
            }
            let exp = if all {
                if fails > 0 { FAIL } else { PASS }
            } else {
                if passes > 0 { PASS } else { FAIL }
            };
            assert!(ctx.balanced());
            assert!(ctx.n_block == 1);
            if !($with_unres && negation) {
                // (how prefix negation treats an unresolved value is not pinned down by the docs)
                assert!(got == exp);
                assert!(ctx.block_status == exp);
            }
            kani::cover!(got == PASS);
            kani::cover!(got == FAIL);
            forget(r);
            forget(clause);
        });
    };
}

//@ k8bm_eq_int_1 props=C03,C01,C02 tier=probe expect=pass fns=eval_guard_access_clause,binary_operation :: clause level binary path [operator layer modelled], `[not] a ==/!= <int>` on 1 resolved Int (both any i64), some/all symbolic: PASS iff (a == v) xor `!=` xor prefix-not; one block record with that status; balanced
k8bm!(k8bm_eq_int_1, CmpOperator::Eq, 1, false, 7);
//@ k8bm_lt_int_1 props=C03,C01 tier=probe expect=pass fns=eval_guard_access_clause,binary_operation :: clause level binary path [operator layer modelled], `[not] a < v`: `not a < v` holds exactly when `a >= v`
k8bm!(k8bm_lt_int_1, CmpOperator::Lt, 1, false, 7);
//@ k8bm_ge_int_2 props=C03,C01 tier=probe expect=pass fns=eval_guard_access_clause,binary_operation :: clause level binary path [operator layer modelled], `a >= v` on 2 resolved Ints: some/all fold
k8bm!(k8bm_ge_int_2, CmpOperator::Ge, 2, false, 8);
//@ k8bm_eq_int_unres props=C01,C02 tier=probe expect=pass fns=eval_guard_access_clause,binary_operation :: clause level binary path [operator layer modelled], `a == v` on (resolved Int, unresolved): unresolved counts as FAIL
k8bm!(k8bm_eq_int_unres, CmpOperator::Eq, 1, true, 8);
