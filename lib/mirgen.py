"""C19 (rulegen), the part engine B can read: what gen_rules records, what print_rules emits and when.

Decided: (R0) rules text reaches the writer only on the path where the crate's own parser accepted exactly that text;
(R1) the text is assembled from five fixed templates whose holes are filled with the right values (type, variable,
property, value list); (R2) per resource type: one `let`, one `rule .. when %var !empty {`, one clause per recorded
property (`IN [..]` iff more than one value, else `==`), one closing brace; (G1) one gen_rules step records the value of
this resource's property under (its type, that property) and removes nothing.
NOT decided: that the emitted rules PASS on the template they came from - and they do not in general: see the known
finding exhibited by `generated_rule_holds_on_source`.
"""
import json, os, re, shutil, subprocess, tempfile
import mirsmt, mirexec
from mirsmt import Untranslatable, pc_term
from miragg import calls
from mirblocks import m_result_opq, iterations, field


def decode_template(raw):
    """nightly's packed format_args! template: <len byte><literal> ... 0xc0 = `{}` ... 0x00 = end"""
    b = bytes(raw, "utf-8").decode("unicode_escape").encode("latin-1")
    out, i = "", 0
    while i < len(b):
        c = b[i]
        if c == 0:
            break
        if c == 0xC0:
            out += "{}"
            i += 1
        elif c < 0x80:
            out += b[i + 1:i + 1 + c].decode("utf-8", "replace")
            i += 1 + c
        else:
            out += f"<{c:02x}>"
            i += 1
    return out


EXPECTED = {
    "var": "{}_resources",
    "let": "let {} = Resources.*[ Type == '{}' ]\n",
    "rule": "rule {} when %{} !empty {{\n".replace("{{", "{"),
    "in": "  %{}.Properties.{} IN [{}]\n",
    "eq": "  %{}.Properties.{} == {}\n",
}


def _models():
    def m_args(ex, av):
        return ("struct", "fmtargs", {"template": av[0] if av else ex.opq(), "args": av[1] if len(av) > 1 else ("array", [])})

    def m_format(ex, av):
        return ("struct", "formatted", {"of": av[0]}) if av else ex.opq()
    return {"next": mirexec.m_iter_next, "into_iter": mirexec.m_new_iter, "iter": mirexec.m_new_iter, "new_display": mirexec.m_identity,
            "re:Arguments::<.*>::new(?:_const|_v1)?(?:::<.*>)?$": m_args, "format": m_format, "default": lambda ex, av: ex.opq(),
            "append": lambda ex, av: ("unit",), "replace": lambda ex, av: ex.opq(), "to_lowercase": lambda ex, av: ex.opq(),
            "join": lambda ex, av: ex.opq(), "len": lambda ex, av: ("int", ex.len_of(av[0])), "string": m_result_opq,
            "new_extra": lambda ex, av: ("struct", "span", {"text": av[0]}) if av else ex.opq(), "rules_file": m_result_opq,
            "write_fmt": mirexec.m_result_unit, "write_err": mirexec.m_result_unit, "deref": mirexec.m_identity, "as_str": mirexec.m_identity,
            "unwrap": lambda ex, av: (av[0][3].get("Some") or av[0][3].get("Ok")) if av and av[0][0] == "enum" and (av[0][3].get("Some") or av[0][3].get("Ok")) else ex.opq(),
            "branch": mirexec.m_try_branch, "from_residual": mirexec.m_from_residual}


def _fmt(v):
    """(template text, [args]) of a formatted value, or None"""
    if v and v[0] == "struct" and v[1] == "formatted":
        fa = v[2]["of"]
        if fa[0] == "struct" and fa[1] == "fmtargs" and fa[2]["template"][0] == "bytes":
            args = fa[2]["args"][1] if fa[2]["args"][0] == "array" else None
            return decode_template(fa[2]["template"][1]), args
    return None


def print_rules_structure(a):
    ex = a.exec(r"(?:commands::rulegen::)?print_rules", _models(), log=("append", "unwrap"), unroll=1, max_paths=60000)
    a.fns.append("commands::rulegen::print_rules")
    rule_map, writer = ex.arg_env["_1"], ex.arg_env["_2"]
    bad0, bad1, nemit, ntypes = [], [], 0, 0
    for p in ex.paths:
        r = p.ret
        evs = [e for e in p.events if e[0] == "call"]
        # ---- R0: emitted => parsed ---------------------------------------------------------------------------------
        st = [e for e in evs if e[1] == "string"]
        rf = [e for e in evs if e[1] == "rules_file"]
        wf = [e for e in evs if e[1] == "write_fmt"]
        we = [e for e in evs if e[1] == "write_err"]
        probs = []
        text = None
        if st and st[0][3][0] == "enum":
            text = st[0][3][3]["Ok"]
        for e in rf:
            sp = e[2][0]
            if not (sp[0] == "struct" and sp[1] == "span" and text is not None and str(sp[2]["text"]) == str(text)):
                probs.append("the text handed to the parser is not the text that was built")
        for e in wf:
            nemit += 1
            fa = e[2][1] if len(e[2]) > 1 else None
            ok = (fa is not None and fa[0] == "struct" and fa[1] == "fmtargs" and fa[2]["template"][0] == "bytes"
                  and decode_template(fa[2]["template"][1]) == "{}" and fa[2]["args"][0] == "array" and len(fa[2]["args"][1]) == 1
                  and text is not None and str(fa[2]["args"][1][0]) == str(text))
            if not ok:
                probs.append("what is written is not exactly the text that was built")
            if not rf:
                probs.append("rules written without having been parsed")
        if wf and rf and rf[0][3][0] == "enum":
            bad0.append(f"(and {pc_term(p.pc)} (not {'false' if probs else f'(= {rf[0][3][2]} 0)'}))")
        elif probs:
            bad0.append(pc_term(p.pc))
        # ---- R1 / R2: per type ----------------------------------------------------------------------------------------
        outer = [(k, el, tag, i) for k, el, tag, i in iterations(ex, p, it_filter=lambda ev: ex.iter_src.get(ev[2][0][1], ev[2][0]) == rule_map)]
        apps = [(i, e) for i, e in enumerate(p.events) if e[0] == "call" and e[1] == "append"]
        idx = [i for _k, _e, _t, i in outer] + [len(p.events)]
        probs1, parts = [], []
        for n, (k, el, tag, i0) in enumerate(outer):
            if f"(= {tag} 1)" not in p.pc:
                continue
            ntypes += 1
            seg = [e for i, e in apps if idx[n] <= i < idx[n + 1]]
            fm = [(_fmt(e[2][1]) if len(e[2]) > 1 else None, e) for e in seg]
            if len(fm) < 3 or fm[0][0] is None or fm[1][0] is None:
                probs1.append("a type's block does not start with a formatted `let` and `rule` line")
                continue
            (t_let, a_let), (t_rule, a_rule) = fm[0][0], fm[1][0]
            resource = field(ex, el, 0, "?") if el is not None else None
            props = field(ex, el, 1, "?") if el is not None else None
            if t_let != EXPECTED["let"] or t_rule != EXPECTED["rule"]:
                probs1.append(f"let / rule templates differ: {t_let!r} / {t_rule!r}")
                continue
            # let <var> = Resources.*[ Type == '<this type>' ]; rule <name> when %<same var> !empty {
            if not (a_let and len(a_let) == 2 and str(a_let[1]) == str(resource) and a_rule and len(a_rule) == 2 and str(a_rule[1]) == str(a_let[0])):
                probs1.append("the filter does not name this type / the rule is not guarded by the variable just defined")
            var = a_let[0] if a_let else None
            vf = _fmt(var) if var is not None else None
            if not (vf and vf[0] == EXPECTED["var"] and vf[1] and len(vf[1]) == 1 and a_rule and str(vf[1][0]) == str(a_rule[0])):
                probs1.append("variable name is not <rule name>_resources")
            last = seg[-1][2][1] if len(seg[-1][2]) > 1 else None
            if last != ("str", "}\\n") and last != ("str", "}\n"):
                probs1.append("a type's block is not closed by `}`")
            inner = [(k2, el2, tag2, i2) for k2, el2, tag2, i2 in iterations(ex, p, it_filter=lambda ev: props is not None and ex.iter_src.get(ev[2][0][1], ev[2][0]) == props)
                     if idx[n] <= i2 < idx[n + 1]]
            clause_fm = fm[2:-1]
            entered = [(k2, el2, tag2, i2) for k2, el2, tag2, i2 in inner if f"(= {tag2} 1)" in p.pc]
            if len(clause_fm) != len(entered):
                probs1.append(f"{len(clause_fm)} clauses for {len(entered)} properties")
                continue
            for (k2, el2, tag2, i2), (f2, e2) in zip(entered, clause_fm):
                prop = field(ex, el2, 0, "?") if el2 is not None else None
                vals = field(ex, el2, 1, "?") if el2 is not None else None
                if f2 is None or f2[0] not in (EXPECTED["in"], EXPECTED["eq"]) or not f2[1] or len(f2[1]) != 3:
                    probs1.append("a clause is not one of the two clause templates")
                    continue
                if not (str(f2[1][0]) == str(var) and str(f2[1][1]) == str(prop)):
                    probs1.append("a clause does not speak about this type's variable and this property")
                many = f"(> {ex.len_of(vals)} 1)" if vals is not None and vals[0] == "opaque" else "false"
                parts.append(many if f2[0] == EXPECTED["in"] else f"(not {many})")
        # everything emitted is emitted while visiting an entry of the rule map GIVEN (a loop over a re-keyed / sorted / filtered copy is
        # not the documented structure: entries may have been merged or dropped on the way)
        in_outer = {id(e) for n in range(len(outer)) for i, e in apps if idx[n] <= i < idx[n + 1]} if outer else set()
        if any(id(e) not in in_outer and _fmt(e[2][1] if len(e[2]) > 1 else None) is not None for i, e in apps):
            probs1.append("rule text emitted outside a visit of the rule map's own entries")
        if outer or probs1:
            bad1.append(f"(and {pc_term(p.pc)} (not {'false' if probs1 else '(and true ' + ' '.join(parts) + ')'}))")
            if probs1 and os.environ.get("VERIF_DEBUG"):
                print("print_rules:", probs1[:3])
    c0 = a.discharge("rulegen/print_rules/emitted-only-if-parsed", ex, bad0,
                     f"print_rules ({nemit} emitting paths): the text built is handed, unchanged, to the crate's own rules_file parser, and it is "
                     "written to the output (as that very text, nothing added) only on the path where the parser returned Ok; otherwise an "
                     "error is reported")
    c1 = a.discharge("rulegen/print_rules/structure", ex, bad1,
                     f"print_rules, <= 2 resource types x <= 2 properties ({ntypes} type visits): per type - `let <v> = Resources.*[ Type == '<that "
                     "type>' ]`, `rule <name> when %<v> !empty {`, with <v> = <name>_resources; one clause per recorded property, about that "
                     "variable and that property, `IN [..]` iff more than one value was recorded, else `==`; then `}`; the five templates are "
                     "the documented ones")
    for c in (c0, c1):
        if c:
            c["replay"] = replay_rulegen_roundtrip(a)
            c["reproduced"] = c["replay"].get("reproduced", False)
            a.candidates.append(c)


def replay_rulegen_roundtrip(a, homogeneous_only=True):
    """rulegen on templates; the output must load as a rules file with one rule per type that has properties; on templates
    whose resources of one type share their property set, validating the template against its own rules is PASS; changing
    one scalar value to a fresh one makes that type's rule FAIL"""
    exe = a.cli()
    if not exe:
        return {"reproduced": False, "note": "native build failed"}
    templates = {
        "one resource": {"Resources": {"v": {"Type": "AWS::EC2::Volume", "Properties": {"Size": 500, "Encrypted": False, "Zone": "us-west-2b"}}}},
        "two of one type, same properties": {"Resources": {"v1": {"Type": "AWS::EC2::Volume", "Properties": {"Size": 500, "Zone": "a"}},
                                                           "v2": {"Type": "AWS::EC2::Volume", "Properties": {"Size": 50, "Zone": "a"}}}},
        "two types + one without properties": {"Resources": {"q": {"Type": "AWS::SQS::Queue", "Properties": {"Fifo": True}},
                                                             "b": {"Type": "AWS::S3::Bucket", "Properties": {"Name": "x y"}},
                                                             "n": {"Type": "AWS::SNS::Topic"}}},
    }
    templates["same text, different kind"] = {"Resources": {"v1": {"Type": "AWS::EC2::Volume", "Properties": {"Size": "500", "On": "true"}},
                                                          "v2": {"Type": "AWS::EC2::Volume", "Properties": {"Size": 500, "On": True}}}}
    templates["long floats"] = {"Resources": {"r": {"Type": "AWS::R::L", "Properties": {"T1": 31.245270191439438, "T2": 0.41068316042613316,
                                                                                       "T3": 13.73539334919971516, "T4": 0.1, "T5": 1e-7}}}}
    templates["floats and negative numbers"] = {"Resources": {"r": {"Type": "AWS::R::S", "Properties": {"Weight": 2.0, "T": 1.5, "N": -3}}}}
    if not homogeneous_only:
        templates["two of one type, DIFFERENT property sets"] = {"Resources": {"a": {"Type": "AWS::X::Y", "Properties": {"Size": 500, "Enc": True}},
                                                                              "b": {"Type": "AWS::X::Y", "Properties": {"Size": 50}}}}
    d = tempfile.mkdtemp(prefix="cfnverif_replay_")
    env = dict(os.environ)
    env["RUST_BACKTRACE"] = "0"
    out, tried = [], []

    def validate(tfile):
        pr = subprocess.run([exe, "validate", "-r", "g.guard", "-d", tfile, "--structured", "-o", "json", "--show-summary", "none"], cwd=d,
                            capture_output=True, text=True, env=env, timeout=60)
        try:
            return json.loads(pr.stdout)[0], pr.returncode
        except Exception:
            return None, pr.returncode
    try:
        for label, t in templates.items():
            open(os.path.join(d, "t.json"), "w").write(json.dumps(t, indent=1))
            pg = subprocess.run([exe, "rulegen", "-t", "t.json"], cwd=d, capture_output=True, text=True, env=env, timeout=60)
            open(os.path.join(d, "g.guard"), "w").write(pg.stdout)
            types = {r["Type"] for r in t["Resources"].values() if r.get("Properties")}
            rules = set(re.findall(r"^rule (\w+) when", pg.stdout, re.M))
            want = {x.replace("::", "_").lower() for x in types}
            if pg.returncode != 0 or rules != want:
                out.append({"template": label, "problem": "not one rule per type with properties", "rules": sorted(rules), "expected": sorted(want), "exit": pg.returncode})
                continue
            rep, rc = validate("t.json")
            if rep is None or set(rep.get("compliant", [])) != rules or rc != 0:
                out.append({"template": label, "problem": "the generated rules do not all PASS on the template they were generated from",
                            "rules_text": pg.stdout, "compliant": rep.get("compliant") if rep else None, "exit": rc})
                continue
            # change one scalar to a value not present
            name, res = next((n, r) for n, r in t["Resources"].items() if r.get("Properties"))
            prop, val = next(iter(res["Properties"].items()))
            t2 = json.loads(json.dumps(t))
            t2["Resources"][name]["Properties"][prop] = "zz-not-present" if isinstance(val, str) else (12345 if not isinstance(val, bool) else (not val))
            open(os.path.join(d, "t2.json"), "w").write(json.dumps(t2, indent=1))
            rep2, rc2 = validate("t2.json")
            rname = res["Type"].replace("::", "_").lower()
            failed = {x["Rule"]["name"] for x in (rep2 or {}).get("not_compliant", []) if "Rule" in x}
            ok = rep2 is not None and rname in failed and rc2 == 19
            tried.append({"template": label, "ok": ok})
            if not ok:
                out.append({"template": label, "problem": f"changing {name}.{prop} to a fresh value does not make rule {rname} FAIL", "exit": rc2})
        return {"reproduced": bool(out), "mismatches": out[:3], "tried": tried}
    finally:
        shutil.rmtree(d, ignore_errors=True)


def gen_rules_step(a):
    """one (resource, property) step of gen_rules: the property's value is recorded under (the resource's type, the property)"""
    ex = a.exec(r"(?:commands::rulegen::)?gen_rules",
                {"next": mirexec.m_iter_next, "into_iter": mirexec.m_new_iter, "iter": mirexec.m_new_iter, "from_value": m_result_opq,
                 "as_str": mirexec.m_option, "index": lambda ex, av: ex.proj_of(av[0], "[" + str(av[1]) + "]") if av and av[0][0] == "opaque" else ex.opq(),
                 "clone": mirexec.m_identity, "to_string": mirexec.m_identity, "from": mirexec.m_identity,
                 "contains_key": lambda ex, av: ex.havoc("bool"), "is_string": lambda ex, av: ex.havoc("bool"),
                 "get_mut": mirexec.m_option, "unwrap": lambda ex, av: av[0][3]["Some"] if av and av[0][0] == "enum" and "Some" in av[0][3] else ex.opq(),
                 "collect": lambda ex, av: ("struct", "collected", {"of": av[0]}) if av else ex.opq(), "new": lambda ex, av: ex.opq(),
                 "box_assume_init_into_vec_unsafe": mirexec.m_vec_from_array, "trim": mirexec.m_identity, "replace": mirexec.m_identity,
                 "format": lambda ex, av: ex.opq()},
                log=("insert", "contains_key", "get_mut", "remove", "clear", "retain"), unroll=1, max_paths=20000)
    a.fns.append("commands::rulegen::gen_rules")
    bad, nstep = [], 0

    def elem_of(v):
        """the single element of vec![x].into_iter().collect() / of a quoted format, unwrapped to the text value"""
        for _ in range(6):
            if v is None:
                return None
            if v[0] == "struct" and v[1] == "collected":
                v = v[2]["of"]
            elif v[0] == "array" and len(v[1]) == 1:
                v = v[1][0]
            elif v[0] == "opaque" and v[1] in ex.iter_src:
                v = ex.iter_src[v[1]]
            else:
                return v
        return v
    for p in ex.paths:
        evs = [e for e in p.events if e[0] == "call"]
        if any(e[1] in ("remove", "clear", "retain") for e in evs):
            bad.append(pc_term(p.pc))
            continue
        ins = [e for e in evs if e[1] == "insert"]
        ck = [e for e in evs if e[1] == "contains_key"]
        # a property step is recognisable by the lookup of the type in the rule map
        if not ck:
            continue
        nstep += 1
        probs = []
        if not ins:
            probs.append("a property was visited and nothing was recorded")
        # where the recorded text comes from: the property's own value, rendered by serde (to_string) or taken as the string it is
        srcs = []
        for e in evs:
            if e[1] == "to_string" and "serde_json::Value as ToString" in (e[5] or ""):
                srcs.append((e[2][0], e[3]))
            if e[1] == "as_str" and e[3][0] == "enum" and "Some" in e[3][3]:
                srcs.append((e[2][0], e[3][3]["Some"]))
        texts = {str(t) for _v, t in srcs}
        prop_vals = {str(v) for v, _t in srcs}
        fmts = [e for e in evs if e[1] == "format"]
        recorded = []
        for e in ins:
            val = elem_of(e[2][-1])
            if val is not None and (val[0] != "opaque" or str(val) in texts or any(str(val) == str(f[3]) for f in fmts)):
                recorded.append(val)
        leaf = [v for v in recorded if str(v) in texts or any(str(v) == str(f[3]) for f in fmts)]
        if ins and not leaf:
            probs.append("the text recorded is not the property value's own rendering (serde's to_string of it, or the string itself, optionally quoted)")
        bad.append(pc_term(p.pc) if probs else "false")
        if probs and os.environ.get("VERIF_DEBUG"):
            print("gen_rules:", probs, [str(e[2][-1])[:80] for e in ins][:3], list(texts)[:3])
    c = a.discharge("rulegen/gen_rules/records-every-property", ex, bad,
                    f"gen_rules, one resource x one property ({nstep} property steps): nothing is ever removed from the map; every property "
                    "visited ends in an insert - into the value set of (type, property) if both exist, else into a new set / property map - and "
                    "the text inserted is the property value's OWN rendering: serde's to_string of that value, or the string it is (trimmed, "
                    "newlines dropped, strings re-quoted), never a re-computed number", witness=False)
    if c:
        c["replay"] = replay_rulegen_roundtrip(a)
        c["reproduced"] = c["replay"].get("reproduced", False)
        a.candidates.append(c)


def generated_rule_holds_on_source(a):
    """the semantic half of C19 that does NOT hold: with in_map = 'property P is recorded for type T' and has = 'this resource of
    type T has P', the facts read off the code are: in_map' = in_map or has (gen_rules only adds), the clause for P is emitted
    for ALL resources of T (print_rules: one variable per type), and a resource without P makes that clause FAIL (unresolved =
    FAIL, C01). The invariant 'every recorded property is present in every resource of its type' is not preserved."""
    decls = ["(declare-const in_map Bool)", "(declare-const has Bool)"]
    inv_pre = "true"                                       # arbitrary earlier resources
    in_map_after = "(or in_map has)"
    inv_post = f"(=> {in_map_after} has)"               # the resource just processed must have every recorded property
    a.ob.check("rulegen/generated-rule-holds-on-its-source", decls, [], f"(and {inv_pre} (not {inv_post}))",
               "rulegen round trip, abstract step (two Booleans; the three code facts are the obligations above and C01's unresolved = FAIL): after "
               "processing a resource of type T, every property recorded for T is present in that resource - needed for the emitted rule to PASS "
               "on the template it was generated from")
    item = a.ob.items[-1]
    if item["status"] == "refuted":
        item["replay"] = replay_rulegen_roundtrip(a, homogeneous_only=False)
        item["reproduced"] = item["replay"].get("reproduced", False)
        a.candidates.append(item)


def template_reader_wiring(a):
    """C19: rulegen and validate must read the SAME document. parse_template_and_call_gen reads the template text it was given with
    exactly one deserialiser, serde_yaml::from_str (a YAML reader also reads JSON; its number parser is correctly rounded, like the
    loader validate uses) - no second reader tried first or as a fallback - and generates from its `Resources` entry"""
    ex = a.exec(r"(?:commands::rulegen::)?parse_template_and_call_gen",
                {"from_str": m_result_opq, "get": mirexec.m_option, "gen_rules": lambda ex, av: ex.opq(), "exit": lambda ex, av: ("never",),
                 "write_err": mirexec.m_result_unit, "from_slice": m_result_opq, "from_reader": m_result_opq, "from_value": m_result_opq},
                log=("from_str", "from_slice", "from_reader", "from_value", "gen_rules"), unroll=1, max_paths=2000, deepen=False)
    a.fns.append("commands::rulegen::parse_template_and_call_gen")
    bad, n = [], 0
    for p in ex.paths:
        readers = [e for e in p.events if e[0] == "call" and e[1] in ("from_str", "from_slice", "from_reader")]
        gens = calls(p, "gen_rules")
        if not gens:
            continue
        n += 1
        ok = (len(readers) == 1 and "serde_yaml::" in str(readers[0][5]) and readers[0][2] and readers[0][2][0] == ex.arg_env["_1"])
        bad.append(f"(and {pc_term(p.pc)} (not {'true' if ok else 'false'}))")
    c = a.discharge("rulegen/template-read-once-by-the-yaml-reader", ex, bad,
                    f"parse_template_and_call_gen ({n} generating paths): the template text given is read exactly once, by serde_yaml::from_str, before "
                    "rules are generated; no other deserialiser takes part")
    if c:
        c["replay"] = replay_rulegen_roundtrip(a)
        c["reproduced"] = c["replay"].get("reproduced", False)
        a.candidates.append(c)


def rule_names_distinct(a):
    """C19: the generated file must be a rules file whose rules PASS on the template. print_rules derives the rule name AND the
    variable name of a type from `type.replace(SEP, REP).to_lowercase()` (constants and call chain read from the MIR of the current
    tree). Over a 3-symbol model of a type name (each symbol: the separator, the replacement text, an upper-case letter, a lower-case
    letter) the solvers are asked for two DIFFERENT types with the SAME derived name: such a pair makes the file define the variable
    and the rule twice (the second `let` shadows / the rule is evaluated per definition), and the rules no longer describe the
    template. Abstract obligation (a model of two std string functions by their documented contract), like KF2's."""
    body = mirsmt.find_fn(a.mir, r"(?:commands::rulegen::)?print_rules")
    m = re.search(r"str::<impl str>::replace::<&str>\((?:copy|move) _\d+, const \"([^\"]*)\", (?:move|copy) (_\d+)\)", body)
    low = re.search(r"str::<impl str>::to_lowercase\(", body)
    rep = None
    if m:
        mm = re.search(re.escape(m.group(2)) + r" = const \"([^\"]*)\"", body)
        rep = mm.group(1) if mm else None
    if not (m and low and rep is not None):
        a.ob.items.append({"obligation": "rulegen/distinct-types-distinct-rule-names", "describe": "the name derivation of print_rules is no longer "
                           "`type.replace(<const>, <const>).to_lowercase()`: the obligation cannot be stated on this code (inconclusive, not a pass)",
                           "verdicts": {}, "status": "inconclusive", "model": None})
        return
    sep = m.group(1)
    # symbols: 0 = SEP, 1 = REP, 2 = upper-case letter L, 3 = lower-case letter l (same letter); image under replace+lowercase: 0->1, 2->3
    decls, side = [], []
    for w in "ab":
        for i in range(3):
            decls.append(f"(declare-const {w}{i} Int)")
            side.append(f"(and (<= 0 {w}{i}) (<= {w}{i} 3))")
    img = lambda v: f"(ite (= {v} 0) 1 (ite (= {v} 2) 3 {v}))"
    differ = "(or " + " ".join(f"(not (= a{i} b{i}))" for i in range(3)) + ")"
    same = "(and " + " ".join(f"(= {img(f'a{i}')} {img(f'b{i}')})" for i in range(3)) + ")"
    # REP inside a type name only matters if it is a legal character of a type name: `_` is (Custom::Log_Shipper); SEP must be `::`
    a.ob.check("rulegen/distinct-types-distinct-rule-names", decls, side, f"(and {differ} {same})",
               f"rulegen, name derivation `type.replace({sep!r}, {rep!r}).to_lowercase()` (read from MIR) over 3-symbol type names: two different "
               "resource types never get the same rule / variable name")
    item = a.ob.items[-1]
    item["paths"], item["cut_by_unroll_bound"], item["unroll"] = 1, 0, 0
    a.fns.append("commands::rulegen::print_rules (name derivation)")
    if item["status"] == "refuted":
        item["replay"] = replay_rule_name_collision(a, sep, rep)
        item["reproduced"] = item["replay"].get("reproduced", False)
        a.candidates.append(item)


def replay_rule_name_collision(a, sep="::", rep="_"):
    exe = a.cli()
    if not exe:
        return {"reproduced": False, "note": "native build failed"}
    out = []
    d = tempfile.mkdtemp(prefix="cfnverif_replay_")
    env = dict(os.environ)
    env["RUST_BACKTRACE"] = "0"
    try:
        for label, t1, t2 in (("separator vs its replacement", f"Custom{sep}Log{rep}Shipper", f"Custom{sep}Log{sep}Shipper"),
                              ("letter case", f"Custom{sep}Thing", f"Custom{sep}THING")):
            t = {"Resources": {"a": {"Type": t1, "Properties": {"X": 1}}, "b": {"Type": t2, "Properties": {"X": 2}}}}
            open(os.path.join(d, "t.json"), "w").write(json.dumps(t, indent=1))
            pg = subprocess.run([exe, "rulegen", "-t", "t.json"], cwd=d, capture_output=True, text=True, env=env, timeout=60)
            open(os.path.join(d, "g.guard"), "w").write(pg.stdout)
            names = re.findall(r"^rule (\w+) when", pg.stdout, re.M)
            pv = subprocess.run([exe, "validate", "-r", "g.guard", "-d", "t.json", "--show-summary", "none"], cwd=d, capture_output=True, text=True,
                                env=env, timeout=60)
            if len(set(names)) != len(names) or pv.returncode != 0:
                out.append({"case": label, "types": [t1, t2], "rule_names": names, "validate_exit_on_own_template": pv.returncode,
                            "generated": pg.stdout[:400]})
        return {"reproduced": bool(out), "mismatches": out}
    finally:
        shutil.rmtree(d, ignore_errors=True)


SITES = {"C19": [print_rules_structure, gen_rules_step, generated_rule_holds_on_source, rule_names_distinct, template_reader_wiring]}
