"""C14 (alternative spellings do not change a rule file's meaning), the part engine B can read.

The nom combinators themselves (tag, alt, value, opt, preceded ...) are outside the encoding: each application is an
opaque call. What IS readable is how the parser functions of this crate use them:
  * keyword_tables - every keyword parser offers ALL documented spellings of its keyword to ONE alternative and maps
    them to ONE token (so `when`/`WHEN`, `in`/`IN`, `or`/`OR`/`|OR|`, `=`/`:=` ... cannot differ in meaning);
  * type_block_desugar - `AWS::X::Y { .. }` is built as the query `Resources.*[ Type == 'AWS::X::Y' ]` with that very name;
  * (from mirblocks) parser_clause_wiring - prefix `not` and the operator pair are stored as parsed.
Layout, comments, quoting and line breaks live inside nom and are NOT decided.
"""
import re
import mirsmt, mirexec
from mirsmt import Untranslatable, pc_term
from mirblocks import enum_variants, m_result_opq, parser_clause_wiring, replay_negation, iterations, disc
from miragg import calls

# function -> (spellings offered through tag(), spellings offered through char(), token the alternative is mapped to)
KEYWORDS = {
    "in_keyword": ({"in", "IN"}, set(), "In"),
    "exists": ({"exists", "EXISTS"}, set(), "Exists"),
    "empty": ({"empty", "EMPTY"}, set(), "Empty"),
    "keys": ({"keys", "KEYS"}, set(), None),
    "is_list": ({"is_list", "IS_LIST"}, set(), "IsList"),
    "is_struct": ({"is_struct", "IS_STRUCT"}, set(), "IsMap"),
    "is_string": ({"is_string", "IS_STRING"}, set(), "IsString"),
    "is_bool": ({"is_bool", "IS_BOOL"}, set(), "IsBool"),
    "is_int": ({"is_int", "IS_INT"}, set(), "IsInt"),
    "is_float": ({"is_float", "IS_FLOAT"}, set(), "IsFloat"),
    "is_null": ({"is_null", "IS_NULL"}, set(), "IsNull"),
    "when": ({"when", "WHEN"}, set(), None),
    "some_keyword": ({"some", "SOME"}, set(), None),
    "this_keyword": ({"this", "THIS"}, set(), None),
    "or_term": ({"or", "OR", "|OR|"}, set(), None),
    "not": ({"not", "NOT"}, {"!"}, None),
    "let_assignment_expr": ({"let", "=", ":="}, set(), None),
}


def keyword_tables(a):
    CMPO = enum_variants(a.src, "rules/values.rs", "CmpOperator")
    saved = a.enums
    a.enums = dict(a.enums, CmpOperator=CMPO)
    problems, seen = [], 0
    try:
        for fn, (tags, chars, token) in sorted(KEYWORDS.items()):
            try:
                ex = a.exec(r"(?:rules::parser::)?" + re.escape(fn), {"call_mut": m_result_opq, "call": m_result_opq, "parse": m_result_opq, "branch": mirexec.m_try_branch,
                                            "from_residual": mirexec.m_from_residual}, log=("*",), unroll=1, max_paths=2000,
                            first_arg_re=r"_1: LocatedSpan")
            except Untranslatable as e:
                problems.append(f"{fn}: not translatable ({e})")
                continue
            seen += 1
            got_tags, got_chars, tokens, alts = set(), set(), set(), []
            for p in ex.paths:
                for e in p.events:
                    if e[0] != "call":
                        continue
                    if e[1] == "tag" and e[2] and e[2][0][0] == "str":
                        got_tags.add(e[2][0][1])
                    if e[1] == "char" and e[2] and e[2][0][0] in ("int", "char", "str"):
                        got_chars.add(str(e[2][0][1]))
                    if e[1] == "value" and e[2]:
                        tokens.add(str(e[2][0][2] if e[2][0][0] == "enum" else e[2][0]))
                    if e[1] == "alt":
                        alts.append(e)
            if got_tags != tags:
                problems.append(f"{fn}: spellings offered {sorted(got_tags)} != documented {sorted(tags)}")
            if chars and not any(("33" in c or "!" in c) for c in got_chars):
                problems.append(f"{fn}: the `!` spelling is not offered")
            if token is not None:
                want = str(CMPO.index(token)) if token in CMPO else token
                if not tokens or any(want not in t for t in tokens):
                    problems.append(f"{fn}: not every spelling maps to {token} (tokens: {sorted(tokens)})")
            if len(tags) > 1 and fn not in ("let_assignment_expr",) and len({str(x[3]) for x in alts}) > 1 and fn != "not":
                pass
    finally:
        a.enums = saved
    a.fns.append("rules::parser: " + ", ".join(sorted(KEYWORDS)))
    a.ob.check("parser/keyword-tables", [], [], "true" if problems else "false",
               f"{seen} keyword parsers read from MIR (every combinator application an opaque call; the literals and tokens are constants): each "
               "offers exactly the documented spellings of its keyword (lower / upper case; `not` also `!`; `or` also `|OR|`; assignment `=` and "
               "`:=`) and maps all of them to the same token" + ("; PROBLEMS: " + "; ".join(problems) if problems else ""))
    item = a.ob.items[-1]
    if item["status"] == "refuted":
        item["replay"] = replay_spellings(a)
        item["reproduced"] = item["replay"].get("reproduced", False)
        a.candidates.append(item)


def type_block_desugar(a):
    CMPO = enum_variants(a.src, "rules/values.rs", "CmpOperator")
    ex = a.exec(r"type_block", {"type_name": m_result_opq, "call_mut": m_result_opq, "call": m_result_opq, "branch": mirexec.m_try_branch,
                                "from_residual": mirexec.m_from_residual, "box_assume_init_into_vec_unsafe": mirexec.m_vec_from_array,
                                "from": mirexec.m_vec_from_array, "to_string": mirexec.m_identity,
                                "is_some": lambda ex, av: ("bool", f"(= {av[0][2]} 1)") if av and av[0][0] == "enum" else ex.havoc("bool")},
                log=("type_name",), unroll=1, max_paths=5000, first_arg_re=r"_1: LocatedSpan")
    a.fns.append("rules::parser::type_block")
    bad, nok = [], 0

    def lit(v, text):
        return v is not None and v[0] == "variant" and v[2] == "Key" and v[3] and v[3][0] == ("str", text)
    for p in ex.paths:
        r = p.ret
        if p.outcome != "return" or not r or r[0] != "enum" or r[1] != "Result" or "Ok" not in r[3]:
            continue
        okv = r[3]["Ok"]
        tb = okv[1][1] if okv[0] == "tuple" and len(okv[1]) == 2 else None
        if tb is None or tb[0] != "struct" or tb[1] != "TypeBlock":
            if r[2] == "0":
                bad.append(pc_term(p.pc))
            continue
        nok += 1
        f = tb[2]
        q = f.get("query")
        probs = []
        if not (q and q[0] == "array" and len(q[1]) == 3 and lit(q[1][0], "Resources") and q[1][1][0] == "variant" and q[1][1][2] == "AllValues"
                and q[1][1][3] and q[1][1][3][0][0] == "enum" and q[1][1][3][0][2] == "0" and q[1][2][0] == "variant" and q[1][2][2] == "Filter"):
            probs.append("the block's query is not Resources . * [ filter ]")
        else:
            flt = q[1][2][3]
            try:
                gac = flt[1][1][0][1][0][3][0][2]
                acl = gac["access_clause"][2]
                inner = acl["query"][2]
                cw = acl["compare_with"]
                name_v = cw[3]["Some"][3][0][3][0][1][1]
                ok = (flt[0][0] == "enum" and flt[0][2] == "0" and len(flt[1][1]) == 1 and len(flt[1][1][0][1]) == 1
                      and gac["negation"] == ("bool", "false") and inner["match_all"] == ("bool", "true")
                      and inner["query"][0] == "array" and len(inner["query"][1]) == 1 and lit(inner["query"][1][0], "Type")
                      and acl["comparator"][0] == "tuple" and acl["comparator"][1][0][2] == "Eq" and acl["comparator"][1][1] == ("bool", "false")
                      and cw[0] == "enum" and cw[2] == "1" and cw[3]["Some"][2] == "Value" and cw[3]["Some"][3][0][2] == "String"
                      and str(name_v) == str(f.get("type_name")))
            except Exception:
                ok = False
            if not ok:
                probs.append("the filter is not the single clause `Type == <this block's type name>` (all values, not negated)")
        # the type name stored is the one parsed
        tn = [e for e in p.events if e[0] == "call" and e[1] == "type_name" and e[3][0] == "enum"]
        if not tn:
            probs.append("no type name parsed")
        bad.append(pc_term(p.pc) if probs else "false")
    c = a.discharge("parser/type_block/desugars-to-resources-filter", ex, bad,
                    f"type block parser ({nok} paths that build a block): `AWS::X::Y {{ .. }}` is stored with the query Resources . * [ Type == "
                    "'AWS::X::Y' ] - key `Resources`, all values, one un-named filter with the single un-negated all-values clause `Type == "
                    "<name>` where <name> is the very type name stored for the block", witness=False)
    if c:
        c["replay"] = replay_spellings(a)
        c["reproduced"] = c["replay"].get("reproduced", False)
        a.candidates.append(c)


def quoting_wiring(a):
    """single- and double-quoted strings: one worker parameterised by the delimiter; everything it does with a quote
    character it does with THE delimiter it was given, and the text between is kept verbatim"""
    ex = a.exec(r"(?:rules::parser::)?parse_string_inner::\{closure#0\}",
                {"call_mut": m_result_opq, "call": m_result_opq, "parse": m_result_opq, "branch": mirexec.m_try_branch,
                 "from_residual": mirexec.m_from_residual, "ends_with": lambda ex, av: ex.havoc("bool"), "is_empty": lambda ex, av: ex.havoc("bool"),
                 "new": lambda ex, av: ex.opq()},
                log=("*",), unroll=2, max_paths=5000)
    a.fns.append("rules::parser::parse_string_inner::{closure#0}")
    env = ex.arg_env["_1"]
    delim = None
    bad, nret = [], 0
    for p in ex.paths:
        evs = [e for e in p.events if e[0] == "call"]
        chars = [e for e in evs if e[1] == "char"]
        if delim is None and chars:
            delim = chars[0][2][0]
        probs = []
        news = [e for e in evs if e[1] == "new" and not e[2]]
        acc = news[0][3] if news else None
        for e in chars:
            if str(e[2][0]) != str(delim):
                probs.append("an opening / closing quote other than the delimiter given")
        for e in evs:
            if e[1] == "take_while" and not (e[2] and e[2][0][0] == "struct" and str(e[2][0][2].get("ch")) == str(delim)):
                probs.append("the text is not read up to the delimiter given")
            if e[1] == "push" and not (acc is not None and str(e[2][0]) == str(acc) and str(e[2][1]) == str(delim)):
                probs.append("an escaped quote is restored as something other than the delimiter given")
            if e[1] == "push_str" and not (acc is not None and str(e[2][0]) == str(acc)):
                probs.append("text appended to another string")
        r = p.ret
        if p.outcome == "return" and r and r[0] == "enum" and r[2] == "0":
            nret += 1
            okv = r[3]["Ok"]
            val = okv[1][1] if okv[0] == "tuple" and len(okv[1]) == 2 else None
            if not (val is not None and val[0] == "variant" and val[2] == "String" and acc is not None and str(val[3][0]) == str(acc)):
                probs.append("the value returned is not the string built")
        bad.append(pc_term(p.pc) if probs else "false")
    # the two spellings: the same worker, once per quote character
    ps = a.exec(r"(?:rules::parser::)?parse_string", {"call_mut": m_result_opq, "call": m_result_opq, "parse": m_result_opq}, log=("*",), unroll=1,
                max_paths=50, first_arg_re=r"_1: LocatedSpan")
    quotes = sorted(str(e[2][0][1]) for p in ps.paths for e in p.events if e[0] == "call" and e[1] == "parse_string_inner" and e[2] and e[2][0][0] == "char")
    if sorted(set(quotes)) != ["\"", "'"] and sorted(set(quotes)) != ["'", '\\"'] and len(set(quotes)) != 2:
        bad.append("true")
    c = a.discharge("parser/strings/one-worker-per-quote", ex, bad,
                    f"string literals ({nret} returning paths; every combinator application an arbitrary parse result): the opening quote, the "
                    "stop character of the scan, the closing quote and the character an escaped quote is restored to are all the ONE delimiter the "
                    "worker was created with; fragments are appended verbatim to one string, which is the value returned; parse_string offers that "
                    f"worker once for each of the two quote characters (seen: {quotes})", witness=False)
    if c:
        c["replay"] = replay_spellings(a)
        c["reproduced"] = c["replay"].get("reproduced", False)
        a.candidates.append(c)


def replay_spellings(a):
    """one rules file written in two spellings (documented synonyms only) must give the same statuses and exit code"""
    exe = a.cli()
    if not exe:
        return {"reproduced": False, "note": "native build failed"}
    data = ('{"Resources": {"q": {"Type": "AWS::SQS::Queue", "Properties": {"x": 1, "l": [1, 2], "s": "a", "e": "it\'s", "d": "say \\"hi\\""}},\n'
            ' "b": {"Type": "AWS::S3::Bucket", "Properties": {"x": 2, "l": [], "s": "b"}}}, "a": 1}\n')
    pairs = [
        ("rule r when a == 1 {\n  a >= 1\n}\n", "rule r WHEN a == 1 {\n  a >= 1\n}\n"),
        ("rule r {\n  a in [1, 2]\n}\n", "rule r {\n  a IN [1, 2]\n}\n"),
        ("rule r {\n  a exists\n  b !exists\n}\n", "rule r {\n  a EXISTS\n  b !EXISTS\n}\n"),
        ("rule r {\n  Resources.*.Properties.l !empty\n}\n", "rule r {\n  Resources.*.Properties.l !EMPTY\n}\n"),
        ("rule r {\n  some Resources.*.Properties.x == 2\n}\n", "rule r {\n  SOME Resources.*.Properties.x == 2\n}\n"),
        ("rule r {\n  not a == 2\n}\n", "rule r {\n  NOT a == 2\n}\n"),
        ("rule r {\n  not a == 2\n}\n", "rule r {\n  !a == 2\n}\n"),
        ("rule r {\n  a == 2 or a == 1\n}\n", "rule r {\n  a == 2 OR a == 1\n}\n"),
        ("rule r {\n  a == 2 or a == 1\n}\n", "rule r {\n  a == 2 |OR| a == 1\n}\n"),
        ("let v = a\nrule r {\n  %v == 1\n}\n", "let v := a\nrule r {\n  %v == 1\n}\n"),
        ("rule r {\n  Resources.q.Properties.s == 'a'\n}\n", "rule r {\n  Resources.q.Properties.s == \"a\"\n}\n"),
        ("rule r {\n  Resources.q.Properties.e == 'it\\'s'\n}\n", "rule r {\n  Resources.q.Properties.e == \"it's\"\n}\n"),
        ("rule r {\n  Resources.q.Properties.d == \"say \\\"hi\\\"\"\n}\n", "rule r {\n  Resources.q.Properties.d == 'say \"hi\"'\n}\n"),
        ("rule r {\n  Resources.q.Properties.l[1] == 2\n}\n", "rule r {\n  Resources.q.Properties.l.1 == 2\n}\n"),
        ("rule r {\n  Resources.q.Properties.l[4294967296] == 1\n}\n", "rule r {\n  Resources.q.Properties.l.4294967296 == 1\n}\n"),
        ("rule r {\n  Resources.q.Properties.l[4294967297] == 2\n}\n", "rule r {\n  Resources.q.Properties.l.4294967297 == 2\n}\n"),
        ("rule r {\n  Resources.q.Properties.l[2147483648] == 2\n}\n", "rule r {\n  Resources.q.Properties.l.2147483648 == 2\n}\n"),
        ("rule r {\n  Resources.q.Properties.l[8589934593] exists\n}\n", "rule r {\n  Resources.q.Properties.l.8589934593 exists\n}\n"),
        ("rule r {\n  Resources.q.Properties.l[0] == 1\n}\n", "rule r {\n  Resources.q.Properties.l.0 == 1\n}\n"),
        ("rule r {\n  a == 1\n}\n", "rule r {\n  this.a == 1\n}\n"),
        ("rule r {\n  Resources.*[ Type == 'AWS::S3::Bucket' ].Properties.x == 2\n}\n", "rule r {\n  Resources.*[ this.Type == 'AWS::S3::Bucket' ].Properties.x == 2\n}\n"),
        ("rule r {\n  Resources.*[ Properties.x == 1 ] {\n    Properties.s == 'a'\n  }\n}\n", "rule r {\n  Resources.*[ this.Properties.x == 1 ] {\n    this.Properties.s == 'a'\n  }\n}\n"),
        ("rule r {\n  a is_int\n  Resources.q.Properties.s is_string\n  Resources.q.Properties.l is_list\n  Resources.q is_struct\n}\n",
         "rule r {\n  a IS_INT\n  Resources.q.Properties.s IS_STRING\n  Resources.q.Properties.l IS_LIST\n  Resources.q IS_STRUCT\n}\n"),
        ("rule r {\n  AWS::SQS::Queue {\n    Properties.x == 1\n  }\n}\n", "rule r {\n  Resources.*[ Type == 'AWS::SQS::Queue' ] {\n    Properties.x == 1\n  }\n}\n"),
        ("rule r {\n  AWS::S3::Bucket {\n    Properties.x == 1\n  }\n}\n", "rule r {\n  Resources.*[ Type == 'AWS::S3::Bucket' ] {\n    Properties.x == 1\n  }\n}\n"),
        ("rule r {\n  AWS::SNS::Topic {\n    Properties.x == 1\n  }\n}\n", "rule r {\n  Resources.*[ Type == 'AWS::SNS::Topic' ] {\n    Properties.x == 1\n  }\n}\n"),
        ("rule r {\n  a == 1\n  a >= 0\n}\n", "rule r {\n\n  a == 1   # first\n\n  # a comment line\n  a >= 0\n}\n"),
        ("rule r {\n  a == 1\n}\n", "rule r {\n  a == 1\n}\n# the file ends with this comment, no newline after it"),
        ("rule r {\n  a == 1\n}\n", "rule r {\n  a == 1\n}  # end"),
        ("rule r {\n  a == 1\n}\n", "# head\nrule r {  # open\n  a == 1  # clause\n  # own line\n}\n#"),
        ("rule a {\n  a == 1\n}\nrule b {\n  a == 2\n}\nrule r {\n  b or\n  a\n}\n", "rule a {\n  a == 1\n}\nrule b {\n  a == 2\n}\nrule r {\n  b   # remark\n  or a\n}\n"),
        ("rule a {\n  a == 1\n}\nrule b {\n  a == 2\n}\nrule r {\n  b or a\n}\n", "rule a {\n  a == 1\n}\nrule b {\n  a == 2\n}\nrule r {\n  b # one\n  # two\n  or # three\n  a\n}\n"),
        ("rule r {\n  Resources.*[ Type == 'AWS::S3::Bucket' ] {\n    Properties.x == 1\n  } or a == 1\n}\n", "rule r {\n  Resources.*[ Type == 'AWS::S3::Bucket' ] {\n    Properties.x == 1\n  }   # the block ends here\n  or a == 1\n}\n"),
        ("rule r {\n  when a == 1 {\n    a == 2\n  } or a == 1\n}\n", "rule r {\n  when a == 1 {\n    a == 2\n  } # remark\n  or a == 1\n}\n"),
        ("rule r {\n  a == 2 or a == 1\n}\n", "rule r {\n  a == 2 # remark\n  or a == 1\n}\n"),
        ("rule r {\n  AWS::S3::Bucket when a == 1 {\n    Properties.x == 2\n  }\n}\n", "rule r {\n  AWS::S3::Bucket WHEN a == 1 {\n    Properties.x == 2\n  }\n}\n"),
        ("rule r {\n  AWS::SQS::Queue when a == 1 {\n    Properties.x == 2\n  }\n}\n", "rule r {\n  AWS::SQS::Queue WHEN a == 1 {\n    Properties.x == 2\n  }\n}\n"),
        ("rule r {\n  AWS::S3::Bucket when a == 2 {\n    Properties.x == 1\n  }\n}\n", "rule r {\n  AWS::S3::Bucket WHEN a == 2 {\n    Properties.x == 1\n  }\n}\n"),
        ("rule r {\n  when a == 1 {\n    Resources.q.Properties.x == 2\n  }\n}\n", "rule r {\n  WHEN a == 1 {\n    Resources.q.Properties.x == 2\n  }\n}\n"),
        ("rule r {\n  Resources.* when a == 1 {\n    Properties.x >= 1\n  }\n}\n", "rule r {\n  Resources.* WHEN a == 1 {\n    Properties.x >= 1\n  }\n}\n") if False else ("rule r when a == 1 {\n  a == 2\n}\n", "rule r WHEN a == 1 {\n  a == 2\n}\n"),
        ("a == 1\n", "rule default {\n  a == 1\n}\n"),
        ("a == 2 or a == 1\n", "rule default {\n  a == 2 or a == 1\n}\n"),
        ("a == 1 or a == 2\na >= 1\n", "rule default {\n  a == 1 or a == 2\n  a >= 1\n}\n"),
        ("a == 2 |OR| a == 3\n", "rule default {\n  a == 2 or a == 3\n}\n"),
        ("when a == 1 {\n  a == 2 or a == 1\n}\n", "rule default {\n  when a == 1 {\n    a == 2 or a == 1\n  }\n}\n"),
    ]
    out, tried = [], []
    for left, right in pairs:
        res = []
        for text in (left, right):
            rc, rep, err = a.run_structured(exe, text, [data])
            if not (rep and isinstance(rep, list) and rep):
                res.append(("no report", rc))
                continue
            r = rep[0]
            short = lambda n: n.split("/")[-1]          # the implicit rule is reported as <file>/default
            res.append((r.get("status"), rc, tuple(sorted(short(x) for x in r.get("compliant", []))), tuple(sorted(short(x) for x in r.get("not_applicable", []))),
                        tuple(sorted(short(x["Rule"]["name"]) for x in r.get("not_compliant", []) if "Rule" in x))))
        ok = res[0] == res[1] and res[0][0] != "no report"
        tried.append({"left": left, "ok": ok})
        if not ok:
            out.append({"spelling_a": left, "spelling_b": right, "result_a": str(res[0]), "result_b": str(res[1])})
    # both spellings failing to load would be a broken recipe; ONE of two documented spellings not loading is a mismatch
    notran = [o for o in out if "no report" in o["result_a"] and "no report" in o["result_b"]]
    real = [o for o in out if o not in notran]
    return {"reproduced": bool(real), "mismatches": real[:3], "tried": tried, "data": data,
            "note": ("a spelling did not parse: " + str(notran[:2])) if notran else None}


def index_spellings_agree(a):
    """`.n` and `[n]`: both parsers convert the integer literal through a closure (Value -> QueryPart). The two closures are executed
    on the SAME symbolic i64 literal (one solver query over both, the second executor's symbols renamed apart): they must build the same
    QueryPart::Index, for every literal - also for literals that do not fit the index type"""
    V = enum_variants(a.src, "rules/values.rs", "Value")
    runs = []
    for fn in ("dotted_property", "array_index"):
        holder = {}

        def prep(ex):
            x = ex.opq()
            ex.proj[("disc", x[1])] = str(V.index("Int"))
            lit = ex.fresh_int("i64", "lit")
            ex.proj[(x[1], "as Int.0")] = lit
            holder.update(x=x, lit=lit)
            return {"_2": x}
        ex = a.exec(r"(?:(?:rules::)?parser::)?" + fn + r"::\{closure#0\}", {}, prep=prep, unroll=1, max_paths=200, deepen=False)
        a.fns.append(f"rules::parser::{fn}::{{closure#0}}")
        outs = []
        for p in ex.paths:
            r = p.ret
            if p.outcome == "return" and r and r[0] == "variant" and r[2] == "Index" and r[3] and r[3][0][0] == "int":
                outs.append((pc_term(p.pc), r[3][0][1]))
            else:
                outs.append((pc_term(p.pc), None))
        runs.append((ex, holder["lit"][1], outs))
    ren = lambda t: re.sub(r"\|([^|!]+)!(\d+)\|", r"|B.\1!\2|", t)
    (ex1, lit1, outs1), (ex2, lit2, outs2) = runs
    decls = list(ex1.decls) + [ren(d) for d in ex2.decls]
    side = list(ex1.side) + [ren(x) for x in ex2.side] + [f"(= {lit1} {ren(lit2)})"]
    bad = []
    for pc1, o1 in outs1:
        for pc2, o2 in outs2:
            if o1 is None or o2 is None:
                bad.append(f"(and {pc1} {ren(pc2)})")
            else:
                bad.append(f"(and {pc1} {ren(pc2)} (not (= {o1} {ren(o2)})))")
    st = a.ob.check("parser/index-spellings-agree", decls, side, "(or false " + " ".join(bad) + ")",
                    "`.n` and `[n]` (dotted_property / array_index conversion closures run on one shared symbolic i64 literal, integer casts "
                    "with their wrap-around semantics): both build QueryPart::Index of the SAME index value for every literal")
    item = a.ob.items[-1]
    item["paths"], item["cut_by_unroll_bound"], item["unroll"] = len(ex1.paths) + len(ex2.paths), ex1.cut + ex2.cut, 1
    if st == "proved":
        a.ob.check("parser/index-spellings-agree/witness", decls, side, "(or false " + " ".join(f"(and {p1} {ren(p2)})" for p1, _ in outs1 for p2, _ in outs2) + ")",
                   "vacuity witness: both closures have a feasible returning path on a shared literal", expect="refuted")
    if st == "refuted":
        item["replay"] = replay_spellings(a)
        item["reproduced"] = item["replay"].get("reproduced", False)
        a.candidates.append(item)


def rules_file_sorting(a):
    """C14 (`clauses outside any rule behave as the body of one implicit default rule`): how rules_file sorts the parsed top-level
    expressions. One iteration, the expression's kind symbolic: a rule / parameterised rule / assignment goes - itself - to its own list;
    a top-level clause line (its `or` alternatives together), a type-block line and a when block each become exactly ONE conjunction entry
    of the default rule (one `push` onto the list of conjunctions; never an `extend`, which would turn `a or b` into `a` and `b`)"""
    EX = enum_variants(a.src, "rules/parser.rs", "Exprs")
    ex = a.exec(r"(?:(?:rules::)?parser::)?rules_file",
                {"next": mirexec.m_iter_next, "into_iter": mirexec.m_new_iter, "with_capacity": lambda ex, av: ex.opq(),
                 "fold_many1": lambda ex, av: ex.opq(), "call_mut": m_result_opq, "parse": m_result_opq, "is_empty": lambda ex, av: ex.havoc("bool"),
                 "box_assume_init_into_vec_unsafe": mirexec.m_vec_from_array},
                log=("push", "extend", "map", "collect", "append", "insert", "with_capacity"), unroll=1, max_paths=20000, deepen=False)
    a.fns.append("rules::parser::rules_file (sorting of the top-level expressions)")
    bad, nexpr = [], 0
    for p in ex.paths:
        if p.outcome != "return":
            continue
        caps = {str(e[5]).split("::with_capacity")[0]: e[3] for e in calls(p, "with_capacity")}
        lists = {"default": next((v for k, v in caps.items() if "<Vec<" in k and "RuleClause" in k), None),
                 "rules": next((v for k, v in caps.items() if k.startswith("Vec::<exprs::Rule<")), None),
                 "prules": next((v for k, v in caps.items() if "ParameterizedRule" in k), None),
                 "lets": next((v for k, v in caps.items() if "LetExpr" in k), None)}
        its = [(k, el, tag, i) for k, el, tag, i in iterations(ex, p) if "IntoIter<Exprs" in str(p.events[i][5])]
        if not its:
            continue
        idx = [i for _k, _e, _t, i in its] + [len(p.events)]
        parts, probs = [], []
        for n, (k, el, tag, i0) in enumerate(its):
            if f"(= {tag} 1)" not in p.pc or el is None or el[0] != "opaque":
                continue
            nexpr += 1
            seg = [e for i, e in enumerate(p.events) if i0 < i < idx[n + 1] and e[0] == "call"]
            adds = [e for e in seg if e[1] in ("push", "extend", "append", "insert") and e[2] and e[2][0] in lists.values()]
            if len(adds) != 1 or adds[0][1] != "push" or len(adds[0][2]) != 2:
                probs.append("an expression is not added by exactly one push onto one of the four lists")
                continue
            tgt, val = adds[0][2][0], adds[0][2][1]
            d = disc(ex, el)
            alts = []
            for var, lst in (("Rule", "rules"), ("ParameterizedRule", "prules"), ("Assignment", "lets")):
                if var in EX:
                    hit = tgt == lists[lst] and val == ex.proj.get((el[1], f"as {var}.0"))
                    alts.append(f"(and (= {d} {EX.index(var)}) {'true' if hit else 'false'})")
            maps = [e for e in seg if e[1] == "map"]
            cols = [e for e in seg if e[1] == "collect"]
            for var, ctor in (("DefaultClause", "RuleClause::Clause"), ("DefaultTypeBlock", "RuleClause::TypeBlock")):
                if var in EX:
                    pay = ex.proj.get((el[1], f"as {var}.0"))
                    # one entry = collect(map(into_iter(<the line's alternatives>), <constructor>))
                    hit = (tgt == lists["default"] and len(maps) == 1 and len(cols) == 1 and val == cols[0][3] and cols[0][2][0] == maps[0][3]
                           and pay is not None and ex.iter_src.get(maps[0][2][0][1], maps[0][2][0]) == pay
                           and ctor.split("::")[1] + "}" in str(maps[0][5]).replace(" ", ""))
                    alts.append(f"(and (= {d} {EX.index(var)}) {'true' if hit else 'false'})")
            if "DefaultWhenBlock" in EX:
                w, b = ex.proj.get((el[1], "as DefaultWhenBlock.0")), ex.proj.get((el[1], "as DefaultWhenBlock.1"))
                hit = (tgt == lists["default"] and val[0] == "array" and len(val[1]) == 1 and val[1][0][0] == "variant" and val[1][0][2] == "WhenBlock"
                       and val[1][0][3] == [w, b])
                alts.append(f"(and (= {d} {EX.index('DefaultWhenBlock')}) {'true' if hit else 'false'})")
            import os
            if os.environ.get("DBG_RF"):
                print("RF", [x[-6:] for x in alts], adds[0][1], str(val)[:80], [str(m[5])[-60:] for m in maps])
            parts.append("(or " + " ".join(alts) + ")")
        good = "false" if probs else "(and true " + " ".join(parts) + ")"
        bad.append(f"(and {pc_term(p.pc)} (not {good}))")
    c = a.discharge("parser/rules_file/one-entry-per-top-level-line", ex, bad,
                    f"rules_file, one top-level expression of symbolic kind ({nexpr} expression visits): rules, parameterised rules and assignments are "
                    "pushed - themselves - onto their own lists; a clause line / type-block line becomes ONE conjunction entry of the default rule "
                    "holding all its `or` alternatives (collect of map(<alternatives>, constructor)), a when block one entry holding that block")
    if c:
        c["replay"] = replay_spellings(a)
        c["reproduced"] = c["replay"].get("reproduced", False)
        a.candidates.append(c)


def function_arity_gate(a):
    """C18 / C08: the built-ins index their argument lists (`args[1][0]` ...) and rely on the parser having checked the number of arguments
    (the index-in-bounds obligations assume it). function_expr: a call is accepted only if the number of parameters parsed equals
    get_expected_number_of_args() of the function NAMED, and the expression built carries that name and exactly those parameters"""
    geo = {}

    def m_expected(ex, av):
        k = str(av[0])
        if k not in geo:
            geo[k] = ex.fresh_int("usize", "arity")
        return geo[k]

    def m_call_expr(ex, av):
        return ex.fresh_result(("tuple", [av[0] if av else ex.opq(), ("tuple", [ex.opq(), ex.opq()])]), "call")
    ex = a.exec(r"(?:(?:rules::)?parser::)?function_expr",
                {"call_expr": m_call_expr, "try_from": m_result_opq, "get_expected_number_of_args": m_expected,
                 "len": lambda ex, av: ("int", ex.len_of(av[0])), "as_str": mirexec.m_identity, "map_err": mirexec.m_identity,
                 "location_line": lambda ex, av: ex.havoc("u32"), "get_column": lambda ex, av: ex.havoc("usize")},
                log=("len", "get_expected_number_of_args"), unroll=1, max_paths=2000, deepen=False)
    a.fns.append("rules::parser::function_expr")
    bad, nok = [], 0
    for p in ex.paths:
        r = p.ret
        if p.outcome != "return" or not r or r[0] != "enum" or r[1] != "Result":
            bad.append(pc_term(p.pc))
            continue
        ce, tf = calls(p, "call_expr"), calls(p, "try_from")
        okv = r[3].get("Ok")
        is_ok = f"(= {r[2]} 0)"
        if okv is None or "Err" in r[3] and r[2] == "1":
            continue
        nok += 1
        lens, exps = calls(p, "len"), calls(p, "get_expected_number_of_args")
        fe = okv[1][1] if okv[0] == "tuple" and len(okv[1]) == 2 else None
        params = ce[0][3][3]["Ok"][1][1][1][1] if ce and ce[0][3][0] == "enum" else None
        name = tf[0][3][3]["Ok"] if tf and tf[0][3][0] == "enum" else None
        shape = (fe is not None and fe[0] == "struct" and fe[2].get("parameters") == params and fe[2].get("name") == name and params is not None
                 and name is not None and lens and exps and lens[0][2][0] == params and all(e[2][0] == name for e in exps))
        good = f"(= {lens[0][3][1]} {exps[0][3][1]})" if shape else "false"
        bad.append(f"(and {pc_term(p.pc)} {is_ok} (not {good}))")
    c = a.discharge("parser/function_expr/arity-gate", ex, bad,
                    f"function_expr ({nok} accepting paths): a call expression is accepted only when the number of parameters parsed equals "
                    "get_expected_number_of_args() of the function named; the FunctionExpr built carries that function and exactly those parameters")
    if c:
        c["replay"] = replay_function_arity(a)
        c["reproduced"] = c["replay"].get("reproduced", False)
        a.candidates.append(c)


def replay_function_arity(a):
    """every built-in with one argument too few / too many: the rules file is rejected (exit 5), never a crash; with the right number it loads"""
    import os, shutil, subprocess, tempfile
    exe = a.cli()
    if not exe:
        return {"reproduced": False, "note": "native build failed"}
    src = open(os.path.join(a.src, "guard", "src", "rules", "eval_context.rs")).read()
    m = re.search(r"fn get_expected_number_of_args\(&self\) -> usize \{\s*match self \{(.*?)\n        \}", src, re.S)
    names = {"Count": "count", "JsonParse": "json_parse", "RegexReplace": "regex_replace", "Join": "join", "Substring": "substring", "ToLower": "to_lower",
             "ToUpper": "to_upper", "UrlDecode": "url_decode", "ParseInt": "parse_int", "ParseFloat": "parse_float", "ParseString": "parse_string",
             "ParseBoolean": "parse_boolean", "ParseChar": "parse_char", "Now": "now", "ParseEpoch": "parse_epoch"}
    arity = {}
    for arm in re.finditer(r"((?:\|?\s*FunctionName::\w+\s*)+)=>\s*(\d+)", m.group(1) if m else ""):
        for v in re.findall(r"FunctionName::(\w+)", arm.group(1)):
            arity[v] = int(arm.group(2))
    d = tempfile.mkdtemp(prefix="cfnverif_replay_")
    out, tried = [], 0
    try:
        open(os.path.join(d, "d.json"), "w").write('{"s": "abc", "l": ["a", "b"]}\n')
        for var, n in sorted(arity.items()):
            fn = names.get(var)
            if not fn:
                continue
            for k in (n - 1, n, n + 1):
                if k < 0:
                    continue
                args = ", ".join(["s", "\"b\"", "\"c\"", "\"d\"", "\"e\""][:k])
                open(os.path.join(d, "r.guard"), "w").write(f"let v = {fn}({args})\nrule r {{ s exists }}\n")
                pr = subprocess.run([exe, "validate", "-r", os.path.join(d, "r.guard"), "-d", os.path.join(d, "d.json"), "--show-summary", "none"],
                                    capture_output=True, text=True, timeout=60)
                tried += 1
                crashed = pr.returncode == 101 or "panicked" in pr.stderr
                if crashed or (k != n and pr.returncode != 5) or (k == n and pr.returncode == 5):
                    out.append({"call": f"{fn}({args})", "declared_arity": n, "exit": pr.returncode, "expected": "5 (rules file rejected)" if k != n else "not 5",
                                "stderr": pr.stderr[-200:]})
        return {"reproduced": bool(out), "mismatches": out[:4], "runs": tried}
    finally:
        shutil.rmtree(d, ignore_errors=True)


def comment_combinators(a):
    """C14 (`comments ... do not change meaning`): comment2, the only comment recogniser, is delimited(char('#'), take_till(c == '\n'),
    multispace0): nom's take_till stops at the first character satisfying the predicate OR at the end of the input and never fails, so a
    comment that ends the file without a newline is still a comment (a `take_until("\n")`-style combinator fails there). Wiring facts read
    off the MIR (which nom constructors are called with which constants) + the predicate closure executed symbolically."""
    top = mirsmt.find_fn(a.mir, r"(?:(?:rules::)?parser::)?comment2")
    facts = {
        "opens with char('#')": bool(re.search(r"nom::character::complete::char::<[^\n]*>\(const '#'\)", top)),
        "body is nom::bytes::complete::take_till": bool(re.search(r"= nom::bytes::complete::take_till::<", top)) and "take_until" not in top and "take_while1" not in top,
        "closed by multispace0 through delimited": bool(re.search(r"= delimited::<[^\n]*multispace0", top)),
    }
    a.ob.check("parser/comment2/combinators", [], [], "false" if all(facts.values()) else "true",
               "comment2 = delimited(char('#'), take_till(<predicate>), multispace0) - the body combinator is take_till, which also ends at the end of the input "
               f"(facts read off the MIR: {facts}; degenerate solver part)")
    item = a.ob.items[-1]
    item["paths"], item["cut_by_unroll_bound"], item["unroll"] = 1, 0, 0
    cands = [item] if item["status"] == "refuted" else []
    # the predicate: the executor has no model of `char`; the closure is a single comparison, read off its MIR
    try:
        clo = mirsmt.find_fn(a.mir, r"(?:(?:rules::)?parser::)?comment2::\{closure#0\}")
        stmts = [l.strip() for l in clo.splitlines() if l.strip().endswith(";") and not l.strip().startswith(("debug", "let", "scope"))]
        pred_ok = stmts == ["_0 = Eq(copy _2, const '\\n');", "return;"]
    except Untranslatable:
        pred_ok = False
    a.ob.check("parser/comment2/stops-at-newline-only", [], [], "false" if pred_ok else "true",
               "the predicate handed to take_till is exactly `c == '\\n'` (the closure's MIR is that one comparison; degenerate solver part)")
    item2 = a.ob.items[-1]
    item2["paths"], item2["cut_by_unroll_bound"], item2["unroll"] = 1, 0, 0
    if item2["status"] == "refuted":
        cands.append(item2)
    a.fns.append("rules::parser::comment2 (+ its predicate)")
    for c in cands:
        c["replay"] = replay_spellings(a)
        c["reproduced"] = c["replay"].get("reproduced", False)
        a.candidates.append(c)


def keyword_case_symmetry(a):
    """C14 (`a keyword means the same in either of its documented spellings, wherever it is accepted`): every parser function that
    recognises a documented keyword by `tag("<spelling>")` offers ALL spellings of that keyword (so that no production accepts only the
    lower-case form and silently falls through to another production for the upper-case form), and the keyword's spellings appear in
    its own keyword parser only. Enumerated over every function of the MIR dump (site enumeration; degenerate solver part)."""
    from mirorder import functions
    groups = [tags for _fn, (tags, _chars, _tok) in KEYWORDS.items() if _fn != "let_assignment_expr"]
    owners = {frozenset(tags): fn for fn, (tags, _c, _t) in KEYWORDS.items()}
    found, problems = {}, []
    for name, text in functions(a.mir):
        sp = set(re.findall(r'tag::<[^\n]*?>\(const "([^"]+)"\)', text))
        if sp:
            found[re.sub(r"^(?:rules::)?(?:parser::)?", "", name)] = sp
    for fn, sp in sorted(found.items()):
        for g in groups:
            if sp & g:
                if not g <= sp:
                    problems.append(f"{fn} recognises {sorted(sp & g)} but not {sorted(g - sp)}")
                if fn.split("::")[0] != owners[frozenset(g)]:
                    problems.append(f"{fn} spells the keyword {sorted(sp & g)} itself instead of calling {owners[frozenset(g)]}")
    a.ob.check("parser/keywords/every-site-offers-all-spellings", [], [], "true" if problems else "false",
               f"{len(found)} parser functions use tag(<constant>): a function that recognises one spelling of a documented keyword recognises all of them, "
               "and only the keyword's own parser spells it" + ("; PROBLEMS: " + "; ".join(problems) if problems else "") + " (site enumeration; degenerate solver part)")
    item = a.ob.items[-1]
    item["paths"], item["cut_by_unroll_bound"], item["unroll"] = max(1, len(found)), 0, 0
    if not found:
        item["status"] = "inconclusive"
    a.fns.append("every rules::parser function that applies nom's tag() to a constant")
    if item["status"] == "refuted":
        item["replay"] = replay_spellings(a)
        item["reproduced"] = item["replay"].get("reproduced", False)
        a.candidates.append(item)


def layout_skippers(a):
    """C14 (`comments and line breaks between clauses do not change meaning`): wherever the grammar allows layout between two tokens the
    parser must skip it with the comment-aware skippers (zero_or_more_ws_or_comment / one_or_more_ws_or_comment); nom's bare whitespace
    skippers (multispace0 / multispace1 / space0 / space1) see no comments. Enumerated from the MIR of the current tree: the functions
    that hand a BARE skipper to a combinator; they must be the stated ones (the two comment recognisers themselves, and five places
    where the grammar allows blanks only: `r( 1, 2 )` ranges, `not<blank>`, `[ k | ...`, call arguments, parameter names). And `or_join`,
    the separator of a disjunction, is delimited(zero_or_more_ws_or_comment, or_term, one_or_more_ws_or_comment). Site enumeration +
    constants: the solver part is degenerate."""
    import collections
    allowed = {"comment2": {"multispace0"}, "white_space_or_comment": {"multispace1"}, "range_value": {"space0"}, "not": {"space1"},
               "variable_capture_in_map_or_index": {"space0"}, "call_expr": {"multispace0"}, "rule_clause": {"space0"},
               "parameter_names": {"multispace0"}}
    found = {}
    for m in re.finditer(r"^fn ([^\n]*?)\((?:_1|\))", a.mir, re.M):
        name = m.group(1)
        end = a.mir.index("\n}\n", m.start())
        kinds = set()
        for ln in a.mir[m.start():end].splitlines():
            st = ln.strip()
            if st.startswith(("let ", "debug ", "scope ", "fn ")):
                continue
            kinds.update(re.findall(r"\b(multispace0|multispace1|space0|space1)::<", st))
        if kinds:
            found[re.sub(r"^(?:rules::)?(?:parser::)?", "", name)] = kinds
    extra = {k: sorted(v - allowed.get(k.split("::")[0], set())) for k, v in found.items() if v - allowed.get(k.split("::")[0], set())}
    a.ob.check("parser/layout/bare-whitespace-skippers-only-where-stated", [], [], "true" if extra else "false",
               f"functions handing a bare whitespace skipper (no comments) to a combinator: {sorted(found)} - all within the stated table; "
               f"not in the table: {extra} (site enumeration over the MIR; degenerate solver part)")
    item = a.ob.items[-1]
    item["paths"], item["cut_by_unroll_bound"], item["unroll"] = max(1, len(found)), 0, 0
    cands = [item] if item["status"] == "refuted" else []
    if not found:
        item["status"] = "inconclusive"
    try:
        top = mirsmt.find_fn(a.mir, r"(?:(?:rules::)?parser::)?or_join")
        ok = bool(re.search(r"= delimited::<[^\n]*>\(zero_or_more_ws_or_comment, or_term, one_or_more_ws_or_comment\) ->", top))
    except Untranslatable:
        ok = None
    if ok is None:
        a.ob.items.append({"obligation": "parser/or_join/comment-aware-on-both-sides", "describe": "or_join not found", "verdicts": {},
                           "status": "inconclusive", "model": None})
    else:
        a.ob.check("parser/or_join/comment-aware-on-both-sides", [], [], "false" if ok else "true",
                   "or_join = delimited(zero_or_more_ws_or_comment, or_term, one_or_more_ws_or_comment): comments and line breaks are skipped "
                   "before and after the `or` of a disjunction (constructor and operands read off the MIR; degenerate solver part)")
        it2 = a.ob.items[-1]
        it2["paths"], it2["cut_by_unroll_bound"], it2["unroll"] = 1, 0, 0
        if it2["status"] == "refuted":
            cands.append(it2)
    a.fns.append("rules::parser::or_join + every parser function that uses a bare whitespace skipper")
    for c in cands:
        c["replay"] = replay_spellings(a)
        c["reproduced"] = c["replay"].get("reproduced", False)
        a.candidates.append(c)


from mirblocks import type_block, guard_block


def this_and_index_forms(a):
    """evaluation side of two spellings: `this` continues with the value it stands on (wherever it is written, also inside a
    filter) and `.n` on a list is the `[n]` lookup - the dispatcher obligations of C01, run here because C14 names both"""
    import mirquery
    mirquery.q_dispatch(a)


SITES = {"C14": [keyword_tables, type_block_desugar, parser_clause_wiring, quoting_wiring, type_block, guard_block, this_and_index_forms, index_spellings_agree, rules_file_sorting, comment_combinators, layout_skippers, keyword_case_symmetry],
         "C18": [function_arity_gate], "C08": [function_arity_gate]}
