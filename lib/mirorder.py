"""C05 (determinism), order-independence part, on MIR (engine: mirexec.Exec; z3 + cvc5).

The only run-to-run source of variation inside one process image is the iteration order of the std hash collections
(`HashMap` / `HashSet` with `RandomState`: a fresh seed per process). The iteration order is therefore treated as a
SYMBOLIC permutation: every function of the crate that iterates such a collection - the list is re-enumerated from
the MIR dump of the current tree on every run - is executed symbolically with two visited elements whose keys are
distinct symbolic values, and the obligation is that no feasible path emits order-sensitive output (append to a
sequence that outlives the iteration, write to a writer, open / close an evaluation record) in two different
iterations: if one does, the two orders of visiting the same two elements give two different output sequences, i.e.
the output is a function of the hash seed. Derived `Serialize` impls that serialise a hash collection in place are
sites of the same kind (serde iterates them).

Property C05 itself tolerates a different order of independent detail lines in console / plain-text output; the
functions that only feed such output are listed in TOLERATED with that reason and not analysed further (one of them
is used as the analysis' own twin: it MUST be flagged, otherwise the analysis is blind and the result inconclusive).

A candidate becomes a VIOLATION only when the native replay battery - the real CLI run several times in fresh
processes (fresh hash seeds) on inputs with several rules / resources - produces two different byte strings for the
same command line.
"""
import json, os, re, shutil, subprocess, tempfile
import mirsmt, mirexec
from mirsmt import Untranslatable, pc_term
from mirblocks import m_result_opq

HASH_IT = re.compile(r"<std::collections::hash_(?:map|set)::(\w+)<.*> as (?:Iterator|DoubleEndedIterator|ExactSizeIterator)>::(\w+)")
SER_HASH = re.compile(r"serialize_field::<(Hash(?:Map|Set)<.*?>)>\(.*?const \"(\w+)\"")
# adaptor methods on an unordered iterator whose result does not depend on the order
ORDER_FREE = {"count", "len", "size_hint", "any", "all", "sum", "product", "max", "min", "is_empty"}
SAFE_COLLECT = re.compile(r"collect::<(?:std::collections::)?(?:BTreeMap|BTreeSet|HashMap|HashSet|std::collections::\w+::BTree\w+)<")
SINKS = {"push", "push_str", "push_back", "extend", "extend_from_slice", "write_fmt", "write_str", "write_all", "write",
         "start_record", "end_record", "insert_test_case", "append"}

# console / plain-text output: "identical up to the order of independent detail lines" (the property's own tolerance)
TOLERATED = [
    (r"^gen_rules$", "rulegen: groups the template's resource types; feeds print_rules (console text, one independent rule per type)"),
    (r"^print_rules$", "rulegen console output: one independent rule block per resource type"),
    (r"generic::<impl at guard/src/commands/reporters/test/generic\.rs.*>::(?:get_by_result|print_test_case_report)$",
     "plain-text `test` report: independent `rule: Expected = ..` lines"),
    (r"^(?:cfn|tf)::single_line$", "console single-line summary: independent per-resource lines"),
    (r"^print_compliant_skipped_info$", "console summary: independent per-rule lines"),
    (r"^print_rules_output$", "console summary: independent per-rule lines"),
    (r"generic_summary::<impl at .*>::report$", "console single-line summary (legacy GenericReporter::report API)"),
    (r"cfn_reporter::<impl at .*>::report$", "console single-line summary (legacy GenericReporter::report API)"),
]
# the tolerated site that the analysis must flag (its own twin): prints one line per element of a HashSet
TWIN = r"^print_rules_output$"

# sites accepted on a stated assumption (part of the claim, listed in the evidence)
ASSUMED = [
    (r"^report_at_least_one$",
     "A1: the by-lhs map of report_at_least_one holds at most one key. Decided on MIR (single_key_lemmas): real_binary_operation "
     "passes it the results of ONE each_lhs_compare call, and each_lhs_compare keeps the given lhs in every result unless that lhs "
     "is a list. Assumed: its only caller reaches it from the map-key filter of eval_context, whose left-hand sides are map "
     "keys (strings, never lists), and key equality is reflexive. With one key the iteration order cannot matter. Encoded as len(map) <= 1."),
]
SER_TOLERATED = [
    (r"TestExpectations", "rules", "input-side struct of `test` files: deserialised, never written to an output (assumption A2)"),
    (r"DataOutput", None, "legacy GenericReporter::report renderer (StructuredSummary): not reachable from any command of this tree; the "
                          "current JSON / YAML path serialises FileReport (assumption A3)"),
]


def functions(mir):
    """[(name, text)] of every MIR function body in the dump"""
    heads = [(m.start(), m.group(1)) for m in re.finditer(r"^fn (.+?)\(_?\d*", mir, re.M)]
    out = []
    for i, (pos, name) in enumerate(heads):
        end = heads[i + 1][0] if i + 1 < len(heads) else len(mir)
        out.append((name, mir[pos:end]))
    return out


def enumerate_sites(mir):
    it_sites, ser_sites = {}, []
    for name, text in functions(mir):
        if "hash_map::" in text or "hash_set::" in text:
            for line in text.splitlines():
                if " = <std::collections::hash_" not in line:
                    continue
                m = HASH_IT.search(line)
                if m:
                    it_sites.setdefault(name, []).append((m.group(1), m.group(2), line.strip()))
        if "serialize_field::<Hash" in text:
            for line in text.splitlines():
                m = SER_HASH.search(line)
                if m:
                    owner = re.search(r"serialize\(_1: &([\w:]+)", text)
                    ser_sites.append((name, owner.group(1) if owner else "?", m.group(2), m.group(1)))
    return it_sites, ser_sites


def classify(name, table):
    for rx, *rest in table:
        if re.search(rx, name):
            return rest
    return None


APPENDS = re.compile(r"= (?:std::vec::)?Vec::<[^\n]*?>::(?:push|extend|append|insert)\(|String::push_str\(|::write_fmt\(|::write_all\(|VecDeque::<[^\n]*?>::push_back\(")


def derived_appenders(a):
    """crate functions with a `&mut` receiver whose own body appends to a sequence / writes to a writer (one level deep): calling one of them on
    something that outlives the loop is an ordered emission, like a direct push. Read off the MIR of the current tree."""
    cached = getattr(a, "_appenders", None)
    if cached is None:
        cached = set()
        for name, text in functions(a.mir):
            head = text.split("\n", 1)[0]
            if re.search(r"\(_1: &mut ", head) and "{closure" not in name and APPENDS.search(text):
                cached.add(name.split("::")[-1])
        cached -= {"next", "load", "seek_line"}
        a._appenders = cached
    return cached


def analyse(a, name, side_len_le1=False, unroll=2):
    """symbolic execution of one site function; returns (ex, bad_terms, n_unordered_visits)"""
    def m_gbr(ex, argv):
        return ex.opq()

    def m_gsr(ex, argv):
        return ("tuple", [ex.fresh_enum("Option", 2, "matched", {"Some": ex.fresh_status("mst")}), ex.opq()])
    models = {"next": mirexec.m_iter_next, "into_iter": mirexec.m_new_iter, "iter": mirexec.m_new_iter, "keys": mirexec.m_new_iter,
              "values": mirexec.m_new_iter, "iterate_over": lambda ex, av: ex.opq(), "get_test_data": m_result_opq,
              "eval_rules_file": mirexec.m_result_status, "root_scope": lambda ex, av: ex.opq(), "get_by_rules": m_gbr,
              "get": mirexec.m_option, "try_from": m_result_opq, "get_status_result": m_gsr, "find": mirexec.m_option,
              "to_owned": mirexec.m_identity, "to_string": mirexec.m_identity, "as_str": mirexec.m_identity, "clone": mirexec.m_identity,
              "write_fmt": mirexec.m_result_unit, "start_record": mirexec.m_result_unit, "end_record": mirexec.m_result_unit,
              "now": lambda ex, av: ex.opq(), "elapsed": lambda ex, av: ex.opq(), "as_millis": lambda ex, av: ex.havoc("u128"),
              "default": lambda ex, av: ex.opq(), "insert_test_case": lambda ex, av: ("unit",)}
    sinks_all = SINKS | derived_appenders(a)
    ex = a.exec(re.escape(name), models, log=tuple(sinks_all), unroll=unroll, max_paths=60000)
    bad, visits = [], 0
    keyn = [0]
    for p in ex.paths:
        calls_ = [(i, e) for i, e in enumerate(p.events) if e[0] == "call"]
        by_it = {}
        for i, e in calls_:
            if e[1] == "next" and HASH_IT.search(e[5] or "") and e[2] and e[3][0] == "enum":
                by_it.setdefault(str(e[2][0]), []).append((i, e))
        for it, nx in by_it.items():
            entered = [(i, e) for i, e in nx if f"(= {e[3][2]} 1)" in p.pc]
            if side_len_le1 and entered:
                src = ex.iter_src.get(entered[0][1][2][0][1], entered[0][1][2][0]) if entered[0][1][2][0][0] == "opaque" else None
                if src is not None:
                    t = f"(<= {ex.len_of(src)} 1)"
                    if t not in ex.side:
                        ex.side.append(t)
            if len(entered) < 2:
                continue
            visits += 1
            first = entered[0][0]
            segs = []
            idx = [i for i, _e in nx] + [len(p.events)]
            for (i0, e0) in entered:
                end = min(j for j in idx if j > i0)
                sinks = []
                for j, e in calls_:
                    if not (i0 < j < end) or e[1] not in sinks_all or not e[2]:
                        continue
                    recv = e[2][0]
                    # a sink that outlives the iteration: its receiver existed before the first visit (or is not a local value at all)
                    if recv[0] != "opaque" or ex.created.get(recv[1], 0) <= first:
                        sinks.append(e[1])
                segs.append(sinks)
            if sum(1 for s in segs if s) >= 2:
                # the two visited elements have distinct keys k0 != k1; the emitted sequence is (out(k0), out(k1)) under one
                # order and (out(k1), out(k0)) under the other: different whenever the path is feasible
                keyn[0] += 1
                k0, k1 = f"|hk!{keyn[0]}a|", f"|hk!{keyn[0]}b|"
                ex.decls.append(f"(declare-const {k0} Int)")
                ex.decls.append(f"(declare-const {k1} Int)")
                bad.append(f"(and {pc_term(p.pc)} (not (= {k0} {k1})))")
    return ex, bad, visits


def adaptors_unsafe(sites):
    """adaptor calls on an unordered iterator other than next(): safe only if the result cannot depend on the order"""
    out = []
    for kind, method, line in sites:
        if method == "next" or method in ORDER_FREE:
            continue
        if method == "collect" and SAFE_COLLECT.search(line):
            continue
        out.append((method, line[:200]))
    return out


def single_key_lemmas(a):
    """the two halves of assumption A1 that can be decided on MIR:
    L1 each_lhs_compare(cmp, lhs, rhs): unless lhs is a list, every comparison result it produces carries the GIVEN lhs
       (the same Rc), whatever the comparator answers;
    L2 real_binary_operation hands report_at_least_one exactly the results of ONE each_lhs_compare call.
    Together: the by-lhs map built by report_at_least_one has one key whenever the left-hand value is not a list
    (what remains assumed: the only caller passes map keys, i.e. strings, and key equality is reflexive)."""
    same = lambda x, y: x is not None and y is not None and str(x) == str(y)
    cmp_model = lambda ex, av: ex.fresh_result(ex.opq(), "cmp")

    def pure_bool(tag):
        # is_list / is_scalar are functions of the value: two calls on the same value give the same answer
        def m(ex, av):
            if not av or av[0][0] != "opaque":
                return ex.havoc("bool")
            k = (tag, av[0][1])
            if k not in ex.proj:
                ex.proj[k] = ex.havoc("bool")
            return ex.proj[k]
        return m
    ex = a.exec(r"each_lhs_compare", {"next": mirexec.m_iter_next, "into_iter": mirexec.m_new_iter, "iter": mirexec.m_new_iter,
                                      "clone": mirexec.m_identity, "call": cmp_model,
                                      "is_list": pure_bool("is_list"), "is_scalar": pure_bool("is_scalar")},
                log=("push",), unroll=1, max_paths=40000, deepen=False)      # 8k paths already; one more iteration does not finish
    a.fns.append("rules::eval::each_lhs_compare")
    lhs = ex.arg_env["_2"]
    bad, npush = [], 0
    for p in ex.paths:
        foreign = False
        for e in p.events:
            if e[0] != "call" or e[1] != "push" or len(e[2]) != 2 or e[2][1][0] != "variant" or e[2][1][1] != "ComparisonResult":
                continue
            npush += 1
            inner = e[2][1][3][0] if e[2][1][3] else None
            got = None
            if inner is not None and inner[0] == "struct":
                pair = inner[2].get("pair")
                got = pair[2].get("lhs") if pair is not None and pair[0] == "struct" else inner[2].get("lhs")
            if not same(got, lhs):
                foreign = True
        if foreign:
            isl = [e[3][1] for e in p.events if e[0] == "call" and e[1] == "is_list" and e[2] and same(e[2][0], lhs) and e[3][0] == "bool"]
            bad.append(f"(and {pc_term(p.pc)} (not {isl[0]}))" if isl else pc_term(p.pc))
    c1 = a.discharge("order/lemma/each_lhs_compare-keeps-lhs", ex, bad,
                f"each_lhs_compare, one right-hand value ({npush} result pushes over all paths), comparator result arbitrary: every "
                "ComparisonResult pushed carries the lhs Rc it was given, except on paths where lhs.is_list() holds")
    ex2 = a.exec(r"real_binary_operation", {"next": mirexec.m_iter_next, "into_iter": mirexec.m_new_iter, "iter": mirexec.m_new_iter,
                                            "clone": mirexec.m_identity, "each_lhs_compare": m_result_opq,
                                            "report_at_least_one": m_result_opq, "report_all_values": m_result_opq,
                                            "start_record": mirexec.m_result_unit, "end_record": mirexec.m_result_unit,
                                            "not_compare": lambda ex, av: ex.opq(), "in_cmp": lambda ex, av: ex.opq()},
                 log=("push", "extend"), unroll=1, max_paths=40000, deepen=False)
    a.fns.append("rules::eval::real_binary_operation")
    bad2, ncall = [], 0
    for p in ex2.paths:
        elc = [e for e in p.events if e[0] == "call" and e[1] == "each_lhs_compare"]
        ral = [e for e in p.events if e[0] == "call" and e[1] == "report_at_least_one"]
        for r in ral:
            ncall += 1
            i = p.events.index(r)
            prev = [e for e in elc if p.events.index(e) < i]
            ok = bool(prev) and prev[-1][3][0] == "enum" and same(r[2][0], prev[-1][3][3]["Ok"])
            if not ok:
                bad2.append(pc_term(p.pc))
    c2 = a.discharge("order/lemma/one-lhs-per-report_at_least_one", ex2, bad2,
                     f"real_binary_operation, one left-hand value ({ncall} calls over all paths): report_at_least_one always receives the Ok "
                     "result of the each_lhs_compare call made just before it for that single left-hand value")
    cands = [c for c in (c1, c2) if c]
    if cands:
        rep = replay_determinism(a)
        for c in cands:
            c["replay"] = rep
            c["reproduced"] = rep.get("reproduced", False)
            a.candidates.append(c)


# --------------------------------------------------------------------------------------------------
# process-wide mutable state (C05: reruns / order of inputs; C12: nothing carried from one document to the next)
# --------------------------------------------------------------------------------------------------
MUTABLE_TY = re.compile(r"\b(RefCell|Cell|UnsafeCell|Mutex|RwLock|Atomic\w+|LazyStorage|LocalKey|OnceCell)\b")
WRITE_ONCE = re.compile(r"^(?:lazy_static::lazy::Lazy|OnceLock|std::sync::OnceLock|once_cell::sync::Lazy|std::sync::LazyLock|LazyLock)<(.*)>$")


def state_sites(mir):
    """every `static` / thread-local item of the crate, from the MIR dump: (name, type, kind)"""
    out = []
    for m in re.finditer(r"^(static mut|static|const) (.+) = \{$", mir, re.M):
        kw, rest = m.group(1), m.group(2)
        # `name: type`; the name may contain `<impl at file:1:2: 3:4>` - the type starts after the last ": " not followed by a digit
        cut = max((i for i in (x.start() for x in re.finditer(r": ", rest)) if not rest[i + 2:i + 3].isdigit()), default=-1)
        if cut < 0:
            continue
        name, ty = rest[:cut].strip(), rest[cut + 2:].strip()
        if kw == "const" and "LocalKey<" not in ty:
            continue
        out.append((name, ty, kw))
    return out


def classify_state(name, ty, kw):
    """None if the item cannot carry anything from one evaluation to the next, else the reason it can"""
    if kw == "static mut":
        return "static mut"
    if kw == "const":
        return "thread-local storage (lives as long as the thread: survives from one document to the next)"
    if "__RUST_STD_INTERNAL_VAL" in name or "LazyStorage<" in ty:
        return "thread-local storage"
    w = WRITE_ONCE.match(ty)
    inner = w.group(1) if w else ty
    if ty == name.split("::")[-1] or ty == name:
        return None                        # lazy_static's unit wrapper type (its value lives in the Lazy<..> static listed separately)
    if MUTABLE_TY.search(inner):
        return "interior mutability in a static: " + inner[:80]
    return None                            # immutable after (write-once) initialisation


def process_state_sites(a):
    """C12 `no variable, rule status or captured key leaks from one data file to another` / C05: the evaluator's mutable state
    must live in the scopes created per (rules file, document). Enumerated from the MIR of the current tree: every static and
    thread-local item; allowed are items that are immutable after a write-once initialisation (lazy_static / OnceLock of a type
    without interior mutability). The solver part is degenerate (a finite table); it is stated as an obligation so that the
    evidence lists the sites found."""
    sites = state_sites(a.mir)
    flagged = [(n, t, classify_state(n, t, k)) for n, t, k in sites if classify_state(n, t, k)]
    a.fns.append("every static / thread_local item of the crate (enumerated from MIR)")
    names = "; ".join(f"{n.split('::')[-1]}: {why}" for n, _t, why in flagged[:4])
    st = a.ob.check("state/no-process-wide-mutable-state", [], [], "true" if flagged else "false",
                    f"process-wide state ({len(sites)} static / thread-local items enumerated): none of them can be written after its one-time "
                    "initialisation (no static mut, no thread_local, no interior mutability inside a static), so nothing outlives the scope of one "
                    "(rules file, document) evaluation" + (f" - FOUND: {names}" if flagged else ""))
    item = a.ob.items[-1]
    item["paths"], item["cut_by_unroll_bound"], item["unroll"] = len(sites), 0, 0
    if st == "refuted":
        item["replay"] = replay_isolation_battery(a)
        item["reproduced"] = item["replay"].get("reproduced", False)
        a.candidates.append(item)


def replay_isolation_battery(a):
    """two documents with the same shape and values of the same length at the same paths, one compliant and one not, and rules using
    every kind of derived value (built-in functions on data, variables, named rules, filters): each document's structured report
    when validated alone must equal its report in a joint run, in both orders, and the exit code is 19 iff one of them FAILs"""
    import itertools
    exe = a.cli()
    if not exe:
        return {"reproduced": False, "note": "native build failed"}
    rules = ("let names = Resources.*.Name\nlet up = to_upper(%names)\nlet pol = json_parse(Resources.*.Policy)\nlet jn = join(Resources.*.Tags[*], \",\")\n"
             "let cnt = count(Resources.*.Tags[*])\nlet rr = regex_replace(Resources.*.Arn, \"^arn:(\\w+)$\", \"${1}\")\nlet num = parse_int(Resources.*.Port)\n"
             "let low = to_lower(%names)\nlet sub = substring(%names, 0, 2)\nlet dec = url_decode(Resources.*.Url)\n"
             "rule upper { %up == \"GOOD\" }\nrule policy { %pol.Action == \"s3:GetObject\" }\nrule joined { %jn == \"a,b\" }\nrule counted { %cnt == 2 }\n"
             "rule replaced { %rr == \"aws\" }\nrule number { %num == 80 }\nrule lower { %low == \"good\" }\nrule subs { %sub == \"go\" }\n"
             "rule decoded { %dec == \"a b\" }\nrule dep when upper {\n  policy\n}\nrule filt { Resources.*[ Name == \"good\" ].Port == \"80\" }\n")
    good = ('{"Resources": {"r": {"Name": "good", "Policy": "{\\"Action\\": \\"s3:GetObject\\"}", "Tags": ["a", "b"], "Arn": "arn:aws", "Port": "80",\n'
            ' "Url": "a%20b"}}}\n')
    bad = ('{"Resources": {"r": {"Name": "evil", "Policy": "{\\"Action\\": \\"s3:PutObject\\"}", "Tags": ["a", "c"], "Arn": "arn:gcp", "Port": "81",\n'
           ' "Url": "a%20c"}}}\n')
    docs = {"good": good, "bad": bad}

    def norm(rep):
        return (rep.get("status"), tuple(sorted(rep.get("compliant", []))), tuple(sorted(rep.get("not_applicable", []))),
                tuple(sorted(x["Rule"]["name"] for x in rep.get("not_compliant", []) if "Rule" in x)))
    alone, out = {}, []
    for k, t in docs.items():
        rc, rep, err = a.run_structured(exe, rules, [t])
        if not (rep and isinstance(rep, list) and len(rep) == 1):
            return {"reproduced": False, "note": "singleton run gave no report", "exit": rc, "stderr": (err or "")[-300:]}
        alone[k] = (norm(rep[0]), rc)
    if alone["good"][0][0] != "PASS" or alone["bad"][0][0] != "FAIL":
        out.append({"problem": "the recipe's own documents are not PASS / FAIL alone", "alone": {k: str(v) for k, v in alone.items()}})
    for order in (("good", "bad"), ("bad", "good"), ("good", "good", "bad"), ("bad", "bad", "good"), ("good", "bad", "good")):
        rc, rep, err = a.run_structured(exe, rules, [docs[k] for k in order])
        if not (rep and isinstance(rep, list) and len(rep) == len(order)):
            out.append({"order": order, "problem": "missing reports", "exit": rc})
            continue
        if rc != 19:
            out.append({"order": order, "problem": f"exit code {rc}, one document FAILs"})
        for i, k in enumerate(order):
            if norm(rep[i]) != alone[k][0]:
                out.append({"order": order, "position": i, "document": k, "alone": str(alone[k][0]), "in_run": str(norm(rep[i]))})
    return {"reproduced": bool(out), "mismatches": out[:4], "rules_file": rules, "documents": docs}


# --------------------------------------------------------------------------------------------------
# reads of the environment / the clock (C05: `results never depend on ... the environment, the clock (unless the rule calls now())`)
# --------------------------------------------------------------------------------------------------
ENV_READ = re.compile(r"(std::env::\w+|\benv::var\w*|Local\b[^;(]*?::\w+|and_local_timezone|from_local_datetime|SystemTime::now|Instant::now|Utc::now|"
                      r"chrono::\w+::now|process::id|thread_rng|RandomState::new|current_dir|temp_dir|home_dir|hostname|getenv|localtime)")
ENV_TOLERATED = [
    (r"^now$", r"Utc::now", "the built-in now(): the documented exception"),
    (r"^(handle_structured_single_report|handle_structured_directory_report|get_test_case)$", r"Instant::now", "elapsed-time attribute of JUnit / test reports (excluded by the property)"),
    (r"structured\.rs.*>::evaluate$", r"Instant::now", "elapsed-time field of the structured test report (excluded by the property)"),
    (r"xml\.rs.*>::report$", r"Instant::now", "elapsed-time attribute of the JUnit validate report (excluded by the property)"),
]


def environment_reads(a):
    """every call in the crate that reads the process environment, the local time zone, a clock or a random source, enumerated from the MIR
    of the current tree; allowed: the built-in now() and the elapsed-time stamps the property excludes. Degenerate solver part (finite table)"""
    found = []
    for name, text in functions(a.mir):
        for line in text.splitlines():
            if "-> [return" in line or "-> bb" in line:
                m = ENV_READ.search(line)
                if m:
                    found.append((name, m.group(1)))
    found = sorted(set(found))
    flagged = [(n, c) for n, c in found if not any(re.search(fr, n) and re.search(cr, c) for fr, cr, _why in ENV_TOLERATED)]
    a.fns.append("every call that reads the environment / time zone / clock / a random source (enumerated from MIR)")
    st = a.ob.check("environment/no-dependence-on-env-clock-timezone", [], [], "true" if flagged else "false",
                    f"environment reads ({len(found)} call sites enumerated: {', '.join(sorted({c for _n, c in found})) or 'none'}): apart from the built-in now() and "
                    "the elapsed-time stamps, nothing in the crate reads an environment variable, the local time zone, a clock or a random source"
                    + (f" - FOUND: {'; '.join(n.split('::')[-1] + ' calls ' + c for n, c in flagged[:4])}" if flagged else ""))
    item = a.ob.items[-1]
    item["paths"], item["cut_by_unroll_bound"], item["unroll"] = len(found), 0, 0
    if st == "refuted":
        item["replay"] = replay_environment(a)
        item["reproduced"] = item["replay"].get("reproduced", False)
        a.candidates.append(item)
    # the `colored` crate decides from CLICOLOR / CLICOLOR_FORCE / NO_COLOR / isatty whether a ColoredString's Display emits escape
    # sequences: a ColoredString formatted through its own Display is an environment read. Allowed: console text only.
    sites = []
    for name, text in functions(a.mir):
        for line in text.splitlines():
            st_ = line.strip()
            if st_.startswith(("let ", "debug ", "scope ", "fn ")):
                continue
            if COLOUR_SINK.search(st_):
                sites.append(name)
                break
    sites = sorted(set(sites))
    flagged2 = [n for n in sites if not any(re.search(fr, n) for fr, _why in COLOUR_TOLERATED)]
    st2 = a.ob.check("environment/colour-decisions-reach-console-text-only", [], [], "true" if flagged2 else "false",
                     f"colour decisions ({len(sites)} functions format a ColoredString through its own Display, which consults CLICOLOR / NO_COLOR / "
                     "isatty): all of them write console text or stderr messages (single-line / summary-table / verbose-tree console reporters, "
                     "parse-error messages); no Display impl and no structured reporter is among them"
                     + (f" - FOUND: {'; '.join(flagged2[:4])}" if flagged2 else "") + " (site enumeration; degenerate solver part)")
    item2 = a.ob.items[-1]
    item2["paths"], item2["cut_by_unroll_bound"], item2["unroll"] = max(1, len(sites)), 0, 0
    if not sites:
        item2["status"] = "inconclusive"
    if st2 == "refuted":
        item2["replay"] = replay_environment(a)
        item2["reproduced"] = item2["replay"].get("reproduced", False)
        a.candidates.append(item2)


def cursor_line_numbers(a):
    """C05 (`console output identical up to the order of independent detail lines`): the console reporters print `Code:` snippets through ONE
    ReadCursor per data file while walking the failing resources in HashMap order, so the cursor is asked to seek backwards and forwards in
    an order that differs per process. That is only harmless if the cursor's answers do not depend on its history: every (number, text)
    pair it caches must carry the text's real position. One inductive step of seek_line / next from an arbitrary cursor state with
    0 <= line_num <= cached lines: the j-th line read from the buffer is stored under number (cached lines + j)."""
    import mirexec
    from miragg import calls
    CUR = r"(?:utils::)?<impl at guard/src/utils/mod\.rs:\d+:\d+: \d+:\d+>::"
    cands = []
    for meth in ("seek_line", "next"):
        try:
            ex = a.exec(CUR + meth, {"next": mirexec.m_option, "len": lambda ex, av: ("int", ex.len_of(av[0])), "index": mirexec.m_index},
                        log=("push", "len", "next"), unroll=2, max_paths=4000, first_arg_re=r"_1: &mut (?:utils::)?ReadCursor")
        except Untranslatable as e:
            a.ob.items.append({"obligation": f"ReadCursor::{meth}/numbers-are-positions", "describe": str(e), "verdicts": {}, "status": "inconclusive", "model": None})
            continue
        a.fns.append(f"utils::ReadCursor::{meth}")
        a.note_cut(f"ReadCursor::{meth}/numbers-are-positions", ex)
        me = ex.arg_env["_1"]
        ln0 = ex.proj.get((me[1], ".0")) if me[0] == "opaque" else None
        bad, npush = [], 0
        tgt = ex.arg_env.get("_2")
        cache0 = ex.proj.get((me[1], ".2")) if me[0] == "opaque" else None
        for p in ex.paths:
            lens = calls(p, "len")
            pushes = calls(p, "push")
            if meth == "seek_line" and tgt is not None and tgt[0] == "int" and lens:
                # a line that is already cached (1 <= line <= cached lines) is answered from the cache: the buffer is not read
                if calls(p, "next"):
                    bad.append(f"(and {pc_term(p.pc)} (>= {tgt[1]} 1) (>= {lens[0][3][1]} {tgt[1]}))")
            if not pushes:
                bad.append("false")
                continue
            cache = pushes[0][2][0]
            len0 = ex.len_of(cache)
            pre = f"(and (>= {ln0[1]} 0) (<= {ln0[1]} {len0}))" if ln0 is not None and ln0[0] == "int" else "true"
            terms = []
            for j, e in enumerate(pushes):
                npush += 1
                t = e[2][1]
                num = t[1][0] if t[0] == "tuple" and t[1] and t[1][0][0] == "int" else None
                terms.append(f"(= {num[1]} (+ {len0} {j + 1}))" if num is not None and same_cache(e[2][0], cache) else "false")
            bad.append(f"(and {pc_term(p.pc)} {pre} (not (and true {' '.join(terms)})))")
        c = a.discharge(f"ReadCursor::{meth}/numbers-are-positions", ex, bad,
                        f"ReadCursor::{meth}, one call from an arbitrary state with 0 <= line_num <= cached lines ({npush} pushes over all paths, <= 3 new lines): "
                        "the j-th line read from the buffer is cached under the number (cached lines + j), its real position - whatever line_num was "
                        "left at by an earlier backward seek; a line that is already cached is answered from the cache without reading on", witness=(meth == "seek_line"))
        if c:
            cands.append(c)
    for c in cands:
        c["replay"] = replay_code_snippets(a)
        c["reproduced"] = c["replay"].get("reproduced", False)
        a.candidates.append(c)


def same_cache(x, y):
    return x == y


def replay_code_snippets(a):
    """validate (console) on a template with six failing resources, 10 fresh processes: every `  N.  text` line of a Code: snippet must be
    line N of the data file, and the multiset of output lines must be the same in every run"""
    import os, shutil, subprocess, tempfile, re as _re
    exe = a.cli()
    if not exe:
        return {"reproduced": False, "note": "native build failed"}
    d = tempfile.mkdtemp(prefix="cfnverif_replay_")
    out = []
    try:
        text = "Resources:\n" + "".join(f"  res{k}:\n    Type: AWS::S3::Bucket\n    Properties:\n      Name: {k}\n      Note: line of resource {k}\n" for k in range(6))
        open(os.path.join(d, "t.yaml"), "w").write(text)
        open(os.path.join(d, "r.guard"), "w").write("rule r {\n  Resources.*.Properties.Name == 99\n}\n")
        lines = text.split("\n")
        seen = {}
        for run in range(10):
            pr = subprocess.run([exe, "validate", "-r", os.path.join(d, "r.guard"), "-d", os.path.join(d, "t.yaml")], capture_output=True, text=True, timeout=60)
            wrong = []
            for m in _re.finditer(r"^\s+(\d+)\.(.*)$", pr.stdout, _re.M):
                n_, t_ = int(m.group(1)), m.group(2)
                real = lines[n_ - 1] if 0 < n_ <= len(lines) else None
                if real is None or real.strip() != t_.strip():
                    wrong.append({"printed": f"{n_}.{t_}", "line_of_the_file": real})
            if wrong and not any("problem" in o and o["problem"].startswith("Code") for o in out):
                out.append({"problem": "Code: snippet lines carry the wrong line number", "run": run, "examples": wrong[:3], "exit": pr.returncode})
            seen.setdefault(tuple(sorted(pr.stdout.replace(d, "").splitlines())), []).append(run)
        if len(seen) > 1:
            out.append({"problem": "the console output differs between runs in more than the order of its lines", "distinct_outputs": len(seen),
                        "runs_per_output": sorted(len(v) for v in seen.values())})
        return {"reproduced": bool(out), "mismatches": out[:3]}
    finally:
        shutil.rmtree(d, ignore_errors=True)


COLOUR_SINK = re.compile(r"new_display::<(?:colored::)?ColoredString>|<(?:colored::)?ColoredString as (?:std::fmt::)?Display>::fmt|"
                         r"<(?:colored::)?ColoredString as (?:std::string::)?ToString>::to_string|colored::control::")
COLOUR_TOLERATED = [
    (r"^evaluate_rule$", "console: verbose / print-json preamble of the single-file validate path (stdout console text)"),
    (r"^(cfn|tf)::single_line(::<impl at [^>]*>::emit_code)?$", "console single-line reporters"),
    (r"^pprint_clauses$", "console verbose tree"),
    (r"^(print_partition|print_summary)$", "console summary"),
    (r"summary_table\.rs[^>]*>::(report|report_eval)$", "console summary table"),
    (r"validate/structured\.rs[^>]*>::evaluate(::\{closure#\d+\})?$", "stderr: parse-error message of a rules file"),
]


def replay_environment(a):
    """the same command under different TZ / LANG / HOME / unrelated environment variables: same exit code and output"""
    import os, shutil, subprocess, tempfile
    exe = a.cli()
    if not exe:
        return {"reproduced": False, "note": "native build failed"}
    d = tempfile.mkdtemp(prefix="cfnverif_replay_")
    out = []
    try:
        open(os.path.join(d, "r.guard"), "w").write(
            "let t1 = parse_epoch(stamp)\nlet t2 = parse_epoch(naive)\nrule a { %t1 == 1724198400 }\nrule b { %t2 == 1724198400 }\nrule c { name == \"x\" }\n")
        open(os.path.join(d, "d.json"), "w").write('{"stamp": "2024-08-21T00:00:00Z", "naive": "2024-08-21T00:00:00", "name": "x"}\n')
        outs = {}
        for label, env in (("UTC", {"TZ": "UTC0"}), ("JST", {"TZ": "JST-9"}), ("EST", {"TZ": "EST5", "LANG": "de_DE.UTF-8", "HOME": "/nonexistent", "GUARD_X": "1"})):
            e = dict(os.environ)
            e.update(env)
            pr = subprocess.run([exe, "validate", "-r", os.path.join(d, "r.guard"), "-d", os.path.join(d, "d.json"), "--structured", "-o", "json", "--show-summary", "none"],
                                capture_output=True, text=True, env=e, timeout=60)
            outs[label] = (pr.returncode, pr.stdout, pr.stderr[-200:])
        base = outs["UTC"]
        for k, v in outs.items():
            if v[:2] != base[:2]:
                out.append({"environment": k, "exit": v[0], "exit_under_UTC": base[0], "note": "exit code / structured output differs from the run under TZ=UTC0"})
        # the same without the rule that is an error: the non-error path under the three environments
        open(os.path.join(d, "r3.guard"), "w").write("let t1 = parse_epoch(stamp)\nrule a { %t1 == 1724198400 }\nrule c { name == \"x\" }\nrule n { name == \"y\" }\n")
        outs3 = {}
        for label, env in (("UTC", {"TZ": "UTC0"}), ("JST", {"TZ": "JST-9"}), ("EST", {"TZ": "EST5", "LANG": "de_DE.UTF-8", "HOME": "/nonexistent", "GUARD_X": "1"})):
            e = dict(os.environ)
            e.update(env)
            pr = subprocess.run([exe, "validate", "-r", os.path.join(d, "r3.guard"), "-d", os.path.join(d, "d.json"), "--structured", "-o", "json", "--show-summary", "none"],
                                capture_output=True, text=True, env=e, timeout=60)
            outs3[label] = (pr.returncode, pr.stdout)
        for k, v in outs3.items():
            if v != outs3["UTC"]:
                out.append({"environment": k, "rules": "r3 (no naive timestamp)", "exit": v[0], "exit_under_UTC": outs3["UTC"][0]})
        # colour switches: structured documents are the same bytes whatever CLICOLOR_FORCE / NO_COLOR say
        import re as _re
        open(os.path.join(d, "t.yaml"), "w").write('- name: c1\n  input: {"stamp": "x", "naive": "y", "name": "z"}\n  expectations:\n    rules:\n      c: PASS\n      a: FAIL\n'
                                                    '- name: c2\n  input: {"name": "x"}\n  expectations:\n    rules:\n      c: PASS\n')
        open(os.path.join(d, "r2.guard"), "w").write('rule c { name == "x" }\nrule a { stamp exists }\n')
        cmds = {f"validate -o {f}": [exe, "validate", "-r", os.path.join(d, "r2.guard"), "-d", os.path.join(d, "d.json"), "-d", os.path.join(d, "t.yaml"), "--structured",
                                      "-o", f, "--show-summary", "none"] for f in ("json", "yaml", "junit", "sarif")}
        cmds.update({f"test -o {f}": [exe, "test", "-r", os.path.join(d, "r2.guard"), "-t", os.path.join(d, "t.yaml"), "-o", f] for f in ("json", "yaml", "junit")})
        strip = lambda t: _re.sub(r'time="[^"]*"', 'time=""', _re.sub(r'"?time"?: ?[0-9.e+-]+', "time: 0", t))
        for label, cmd in cmds.items():
            seen = {}
            for envlabel, env in (("plain", {}), ("NO_COLOR=1", {"NO_COLOR": "1"}), ("CLICOLOR_FORCE=1", {"CLICOLOR_FORCE": "1"}), ("CLICOLOR=0", {"CLICOLOR": "0"})):
                e = {k: v for k, v in os.environ.items() if k not in ("NO_COLOR", "CLICOLOR", "CLICOLOR_FORCE")}
                e.update(env)
                pr = subprocess.run(cmd, capture_output=True, text=True, env=e, timeout=60)
                seen[envlabel] = (pr.returncode, strip(pr.stdout))
            for k, v in seen.items():
                if v != seen["plain"]:
                    out.append({"command": label, "environment": k, "exit": v[0], "exit_plain": seen["plain"][0], "escape_bytes_in_output": "\x1b" in v[1],
                                "note": "structured output (apart from elapsed-time fields) differs from the run without colour variables"})
        return {"reproduced": bool(out), "mismatches": out[:4], "exit_codes": {k: v[0] for k, v in outs.items()}}
    finally:
        shutil.rmtree(d, ignore_errors=True)


def order_independence(a):
    it_sites, ser_sites = enumerate_sites(a.mir)
    a.fns.append("every function of the crate that iterates a std HashMap / HashSet (enumerated from MIR)")
    report = {"iteration_sites": {}, "serialize_sites": []}
    candidates = []
    # ---- the analysis' own twin -----------------------------------------------------------------------------
    twin = [n for n in it_sites if re.search(TWIN, n)]
    twin_ok = False
    if twin:
        try:
            ex, bad, visits = analyse(a, twin[0])
            st = a.ob.check("order/twin:" + twin[0], ex.decls, ex.side, "(or false " + " ".join(bad) + ")",
                            "twin: a console function that prints one line per element of a HashSet MUST be flagged as "
                            "order-dependent by the analysis (expected: refuted)")
            it = a.ob.items[-1]
            twin_ok = it["status"] == "refuted"
            it["status"] = "witness-ok" if twin_ok else "inconclusive"
        except Untranslatable as e:
            a.ob.items.append({"obligation": "order/twin", "describe": f"twin not translatable: {e}", "verdicts": {}, "status": "inconclusive", "model": None})
    else:
        a.ob.items.append({"obligation": "order/twin", "describe": "the twin site (print_rules_output) no longer iterates a hash set: "
                           "the analysis has no known-positive to validate itself on", "verdicts": {}, "status": "inconclusive", "model": None})
    # ---- iteration sites ------------------------------------------------------------------------------------
    for name, sites in sorted(it_sites.items()):
        tol = classify(name, TOLERATED)
        if tol:
            report["iteration_sites"][name] = {"class": "tolerated-console", "reason": tol[0], "calls": len(sites)}
            continue
        ass = classify(name, ASSUMED)
        unsafe = adaptors_unsafe(sites)
        entry = {"class": "assumed" if ass else "analysed", "calls": len(sites)}
        if ass:
            entry["assumption"] = ass[0]
        report["iteration_sites"][name] = entry
        label = "order/" + name[-80:]
        if unsafe:
            entry["unsafe_adaptors"] = unsafe
            a.ob.items.append({"obligation": label + "/adaptor", "describe": "an unordered iterator is consumed by an order-preserving "
                               f"adaptor ({unsafe[0][0]}) in a function that is not console-only: candidate (decided by the native replay)",
                               "verdicts": {}, "status": "refuted", "model": None})
            candidates.append(a.ob.items[-1])
            continue
        if not any(m == "next" for _k, m, _l in sites):
            entry["class"] = "order-free adaptors only"
            continue
        try:
            ex, bad, visits = analyse(a, name, side_len_le1=bool(ass))
        except Untranslatable as e:
            a.ob.items.append({"obligation": label, "describe": f"site function not translatable ({e}): candidate, decided by the native replay",
                               "verdicts": {}, "status": "refuted", "model": None})
            candidates.append(a.ob.items[-1])
            continue
        entry["paths"], entry["two_element_visits"] = len(ex.paths), visits
        c = a.discharge(label, ex, bad,
                        f"{name}: the iteration order of its hash collection is a symbolic permutation of two elements with distinct keys; "
                        "no feasible path emits to a sequence / writer / record tracker that outlives the loop in both visits "
                        "(otherwise the two orders give two different outputs)" + (" [under assumption A1]" if ass else ""), witness=not ass)
        if c:
            candidates.append(c)
    # ---- derived Serialize of a hash collection -----------------------------------------------------------------
    for fn, owner, field, ty in ser_sites:
        tol = None
        for rx, fld, reason in SER_TOLERATED:
            if re.search(rx, owner) and (fld is None or fld == field):
                tol = reason
        if tol is None and field == "metadata" and re.search(r"(?:File|Rule)Report", owner):
            # always-empty map: nothing in the crate inserts into a HashMap<String, String>; the one `extend` merges two of them
            grows = re.findall(r"HashMap::<std::string::String, std::string::String>::(?:insert|entry|get_or_insert_with|try_insert)\b", a.mir)
            if not grows:
                tol = "Metadata map is empty in every report: no insert / entry on a HashMap<String, String> exists in the crate (re-checked on the MIR of this tree)"
        report["serialize_sites"].append({"impl_of": owner, "field": field, "type": ty, "tolerated": tol})
        if tol is None:
            a.ob.items.append({"obligation": f"order/serialize/{owner}.{field}", "describe": f"{owner}.{field}: a {ty} is serialised in place "
                               "(serde iterates it in hash order): candidate, decided by the native replay",
                               "verdicts": {}, "status": "refuted", "model": None})
            candidates.append(a.ob.items[-1])
    a.order_report = report
    a.ob.items.append({"obligation": "order/sites", "describe": "unordered-iteration sites of this tree: " + json.dumps(report)[:3000],
                       "verdicts": {}, "status": "witness-ok" if (it_sites and twin_ok) else "inconclusive", "model": None})
    if candidates:
        rep = replay_determinism(a)
        for c in candidates:
            c["replay"] = rep
            c["reproduced"] = rep.get("reproduced", False)
            a.candidates.append(c)


# ----------------------------------------------------------------------------------------------------------------
RULES = """let buckets = Resources.*[ Type == 'AWS::S3::Bucket' ]
let queues = Resources.*[ Type == 'AWS::SQS::Queue' ]
rule zeta when %buckets !empty {
  %buckets.Properties.Name in ['a', 'b', 'c']
  %buckets.Properties.Tags[*].Key == /^k/
}
rule alpha {
  Resources.*.Properties.Name exists
}
rule mid when zeta {
  some Resources.*.Properties.Size >= 3
}
rule beta when %queues !empty {
  %queues.Properties.Fifo == true
}
rule omega {
  Resources[ keys == /^b/ ].Properties.Size in [1, 2, 3]
  Resources.*.Type in ['AWS::S3::Bucket', 'AWS::SNS::Topic']
}
rule keyin {
  Resources[ keys in ['b1', 'b2', 't1', 'c1'] ].Properties.Name == 'zzz'
  Resources[ keys not in ['b1'] ].Properties.Size < 0
}
rule qq {
  Resources.*.Properties.Name not in Allowed[*]
  Resources.*.Properties.Name != Allowed[*]
}
rule kappa when !alpha {
  a exists
}
rule gamma {
  Resources.b1.Properties.Name == 'zzz' <<custom message>>
}
"""
DATA = """{"Resources": {
  "b1": {"Type": "AWS::S3::Bucket", "Properties": {"Name": "a", "Size": 1, "Tags": [{"Key": "k1"}, {"Key": "x2"}]}},
  "b2": {"Type": "AWS::S3::Bucket", "Properties": {"Name": "d", "Size": 5, "Tags": [{"Key": "k3"}]}},
  "t1": {"Type": "AWS::SNS::Topic", "Properties": {"Name": "b", "Size": 2}},
  "c1": {"Type": "AWS::EC2::Instance", "Properties": {"Name": "c", "Size": 9}}
}, "Allowed": ["a", "b", "c", "zz"]}
"""
# key-case conversion: keys that are not present verbatim, with several case variants next to each other
RULES_K = """rule variants {
  Resources.c1.Properties.bucketName == 'a'
}
rule lower {
  resources.*.properties.bucket_name exists
}
rule mixed_case {
  Resources.c1.properties.BucketName == 'a'
}
"""
DATA_K = """{"Resources": {
  "c1": {"Type": "X", "Properties": {"BucketName": "a", "bucket_name": "b", "bucket-name": "c", "Bucket-Name": "d", "Bucket Name": "e"}},
  "c2": {"Type": "Y", "Properties": {"BucketName": "z"}}
}}
"""
TESTS = """- name: one
  input:
    Resources:
      b1: {Type: 'AWS::S3::Bucket', Properties: {Name: a, Size: 1, Tags: [{Key: k1}]}}
  expectations:
    rules:
      zeta: PASS
      alpha: PASS
      mid: FAIL
      beta: SKIP
      omega: PASS
      kappa: SKIP
- name: two
  input:
    Resources:
      t1: {Type: 'AWS::SNS::Topic', Properties: {Name: b, Size: 7}}
  expectations:
    rules:
      zeta: SKIP
      alpha: PASS
      gamma: FAIL
      omega: PASS
"""


def replay_determinism(a, runs=8):
    """every command of the battery, `runs` times in fresh processes: all byte strings and exit codes must coincide
    (JUnit `time=` attributes and `"time":` fields are masked)"""
    exe = a.cli()
    if not exe:
        return {"reproduced": False, "note": "native build failed"}
    d = tempfile.mkdtemp(prefix="cfnverif_replay_")
    env = dict(os.environ)
    env["RUST_BACKTRACE"] = "0"
    try:
        for fn, text in (("r.guard", RULES), ("d.json", DATA), ("t.yaml", TESTS), ("r2.guard", "rule extra { Resources exists }\nrule extra2 { Resources !exists }\n"),
                         ("rk.guard", RULES_K), ("dk.json", DATA_K)):
            open(os.path.join(d, fn), "w").write(text)
        cmds = {}
        for fmt in ("json", "yaml", "sarif", "junit"):
            cmds[f"validate --structured -o {fmt}"] = ["validate", "-r", "r.guard", "-r", "r2.guard", "-d", "d.json", "--structured", "-o", fmt, "--show-summary", "none"]
        # several FAILing data files in one run (copies under other names): per-file parts of the structured documents keep the given order
        for k_ in range(2, 7):
            open(os.path.join(d, f"d{k_}.json"), "w").write(DATA)
        for fmt in ("json", "sarif", "junit"):
            cmds[f"validate --structured -o {fmt} (six data files)"] = (["validate", "-r", "r.guard"] + [x for k_ in ("", 2, 3, 4, 5, 6) for x in ("-d", f"d{k_}.json")]
                                                                          + ["--structured", "-o", fmt, "--show-summary", "none"])
        cmds["validate --structured -o json (key-case variants)"] = ["validate", "-r", "rk.guard", "-d", "dk.json", "--structured", "-o", "json", "--show-summary", "none"]
        cmds["validate -o json"] = ["validate", "-r", "r.guard", "-d", "d.json", "-o", "json", "--show-summary", "none"]
        cmds["validate -o yaml"] = ["validate", "-r", "r.guard", "-d", "d.json", "-o", "yaml", "--show-summary", "none"]
        cmds["validate --verbose --print-json"] = ["validate", "-r", "r.guard", "-d", "d.json", "--verbose", "--print-json", "--show-summary", "none"]
        cmds["parse-tree -p"] = ["parse-tree", "-r", "r.guard", "-p"]
        cmds["parse-tree -y"] = ["parse-tree", "-r", "r.guard", "-y"]
        for fmt in ("json", "yaml", "junit"):
            cmds[f"test -o {fmt}"] = ["test", "-r", "r.guard", "-t", "t.yaml", "-o", fmt]
        diffs, tried = [], []
        for label, args in cmds.items():
            seen = {}
            for k in range(runs):
                p = subprocess.run([exe] + args, cwd=d, capture_output=True, text=True, env=env, timeout=120)
                out = re.sub(r'time="\d+"', 'time="_"', p.stdout)
                out = re.sub(r'"time":\s*\d+', '"time": 0', out)
                out = re.sub(r'^(\s*)time: \d+$', r'\1time: 0', out, flags=re.M)
                if "--print-json" in args:
                    # the console part before the JSON tree is plain text: per-resource blocks are independent detail lines whose order the
                    # property leaves open (`identical up to the order of independent detail lines`); the JSON tree must be byte-identical
                    lines_ = out.splitlines()
                    j0 = next((i for i, l in enumerate(lines_) if l == "{"), len(lines_))
                    head_, blocks_, cur_ = [], [], None
                    for l in lines_[:j0]:
                        if l.startswith("Resource = ") or (cur_ is None and l.startswith("Rule = ")):
                            cur_ = [l]
                            blocks_.append(cur_)
                        elif cur_ is not None:
                            cur_.append(l)
                            if l == "}":
                                cur_ = None
                        else:
                            head_.append(l)
                    out = "\n".join(head_ + ["\n".join(b) for b in sorted(blocks_)] + lines_[j0:])
                seen.setdefault((p.returncode, out), 0)
                seen[(p.returncode, out)] += 1
            ran = all(rc in (0, 7, 19) and out.strip() for rc, out in seen)
            tried.append({"cmd": label, "distinct_outputs": len(seen), "ran": ran, "exit_codes": sorted({rc for rc, _ in seen})})
            if len(seen) > 1:
                (rc1, o1), (rc2, o2) = list(seen)[:2]
                l1, l2 = o1.splitlines(), o2.splitlines()
                first = next((i for i, (x, y) in enumerate(zip(l1, l2)) if x != y), min(len(l1), len(l2)))
                diffs.append({"cmd": "cfn-guard " + " ".join(args), "distinct_outputs_in_%d_runs" % runs: len(seen), "exit_codes": [rc1, rc2],
                              "first_differing_line": first + 1, "run_a": l1[first:first + 3], "run_b": l2[first:first + 3]})
        notran = [t for t in tried if not t["ran"]]
        return {"reproduced": bool(diffs), "mismatches": diffs[:4], "tried": tried, "note": ("some commands did not run: " + str(notran)) if notran else None,
                "files": {"r.guard": RULES, "d.json": DATA, "t.yaml": TESTS, "rk.guard": RULES_K, "dk.json": DATA_K}}
    finally:
        shutil.rmtree(d, ignore_errors=True)


SITES = {"C05": [order_independence, single_key_lemmas, process_state_sites, environment_reads, cursor_line_numbers], "C12": [process_state_sites, order_independence]}
