"""Block-level and operator-layer checks on MIR (engine: mirexec.Exec; solvers z3 + cvc5 via mirsmt.Obligations).

Same contract as miragg.py: one real function per check, every callee is either MODELLED by a symbolic result of
known shape or havoced, loops are unrolled `unroll` times (collections of more elements are cut = outside the bound),
and each path's return value / emitted records are compared with the documented rule stated over the symbolic
callee outcomes of that path. unsat from both solvers = holds for all callee outcomes within the bound.
"""
import json, os, re
import mirsmt, mirexec
from mirsmt import Untranslatable, pc_term
from miragg import calls, record_status, rec_ok, ret_ok_status, ite_fold


# --------------------------------------------------------------------------------------------------
# source-derived tables (so that a reordering of variants / fields is followed, not mis-read)
# --------------------------------------------------------------------------------------------------
def _strip_comments(t):
    t = re.sub(r"//[^\n]*", "", t)
    return re.sub(r"/\*.*?\*/", "", t, flags=re.S)


def enum_variants(src, relfile, name):
    t = _strip_comments(open(os.path.join(src, "guard", "src", relfile)).read())
    m = re.search(r"enum " + re.escape(name) + r"(?:<[^>]*>)?\s*\{", t)
    if not m:
        raise Untranslatable(f"enum {name} not found in {relfile}")
    i, depth, body = m.end(), 1, ""
    while i < len(t) and depth:
        ch = t[i]
        depth += ch == "{"
        depth -= ch == "}"
        if depth:
            body += ch
        i += 1
    out, depth, cur = [], 0, ""
    for ch in body:
        if ch in "({<[":
            depth += 1
        elif ch in ")}>]":
            depth -= 1
        if ch == "," and depth == 0:
            out.append(cur)
            cur = ""
        else:
            cur += ch
    out.append(cur)
    names = []
    for o in out:
        o = re.sub(r"#\[[^\]]*\]", "", o).strip()
        m2 = re.match(r"^(\w+)", o)
        if m2:
            names.append(m2.group(1))
    return names


def struct_fields(src, relfile, name):
    t = _strip_comments(open(os.path.join(src, "guard", "src", relfile)).read())
    m = re.search(r"struct " + re.escape(name) + r"(?:<[^>]*>)?\s*\{(.*?)\n\}", t, re.S)
    if not m:
        raise Untranslatable(f"struct {name} not found in {relfile}")
    body = re.sub(r"#\[[^\]]*\]", "", m.group(1))
    out, depth, cur = [], 0, ""
    for ch in body:
        if ch in "({<[":
            depth += 1
        elif ch in ")}>]":
            depth -= 1
        if ch == "," and depth == 0:
            out.append(cur)
            cur = ""
        else:
            cur += ch
    out.append(cur)
    names = []
    for o in out:
        m2 = re.match(r"^\s*(?:pub(?:\([^)]*\))?\s+)?(\w+)\s*:(?!:)", o, re.S)
        if m2:
            names.append(m2.group(1))
    return names


def disc(ex, v):
    """SMT term of the discriminant of a value (created lazily, keyed by the value's identity)"""
    if v[0] == "enum":
        return v[2]
    if v[0] == "opaque":
        k = ("disc", v[1])
        if k not in ex.proj:
            ex.proj[k] = ex.fresh("Int", "disc")
        return ex.proj[k]
    return None


def field(ex, base, idx, ty):
    """value of field #idx of an opaque struct value (same key the executor uses for `(base.idx: ty)`)"""
    if base[0] == "struct":
        return list(base[2].values())[idx]
    if base[0] == "tuple":
        return base[1][idx]
    k = (base[1], f".{idx}")
    if k not in ex.proj:
        ex.proj[k] = ex.havoc(ty)
    return ex.proj[k]


def payload(ex, v, variant, i=0):
    if v[0] == "enum":
        return v[3].get(variant)
    if v[0] == "variant":
        return v[3][i] if v[2] == variant else None
    return ex.proj_of(v, f"as {variant}.{i}")


def m_result_opq(ex, argv):
    return ex.fresh_result(ex.opq(), "qr")


def iterations(ex, p, it_filter=None):
    """[(k, element value, tag term of the k-th next(), index of the event)] for the `next` calls of the path"""
    out = []
    for i, e in enumerate(p.events):
        if e[0] == "call" and e[1] == "next" and e[3][0] == "enum":
            if it_filter is not None and not it_filter(e):
                continue
            el = e[3][3].get("Some")
            if el is not None and el[0] == "tuple" and len(el[1]) == 2 and "Enumerate" in (e[5] if len(e) > 5 else ""):
                el = el[1][1]                                               # enumerate(): (k, element)
            out.append((len(out), el, e[3][2], i))
    return out


def end_records(p):
    return [(i, e) for i, e in enumerate(p.events) if e[0] == "call" and e[1] == "end_record"]


def last_block_record(p, variant):
    """status term of the last end_record(.., RecordType::<variant>(..)) of the path"""
    for i, e in reversed(end_records(p)):
        if len(e[2]) > 2:
            v, st = record_status(e[2][2])
            if v == variant:
                return st
            if v == "TypeCheck":           # TypeCheck(TypeBlockCheck { type_name, block: BlockCheck { status .. } })
                pass
    return None


def typecheck_status(val):
    if val[0] == "variant" and val[2] == "TypeCheck" and val[3] and val[3][0][0] == "struct":
        blk = val[3][0][2].get("block")
        if blk and blk[0] == "struct":
            st = blk[2].get("status")
            if st and st[0] == "enum":
                return st[2]
    return None


# --------------------------------------------------------------------------------------------------
# eval_guard_block_clause  (query block `Q { ... }`)
# --------------------------------------------------------------------------------------------------
def guard_block(a):
    QR = enum_variants(a.src, "rules/mod.rs", "QueryResult")
    UNRES = QR.index("UnResolved")
    bgc = struct_fields(a.src, "rules/exprs.rs", "BlockGuardClause")
    aq = struct_fields(a.src, "rules/exprs.rs", "AccessQuery")
    ex = a.exec(r"(?:(?:rules::)?eval::)?eval_guard_block_clause",
                {"query": m_result_opq, "eval_general_block_clause": mirexec.m_result_status, "next": mirexec.m_iter_next},
                unroll=2, max_paths=20000)
    a.fns.append("rules::eval::eval_guard_block_clause")
    P, F, S = a.P, a.F, a.S
    arg = ex.arg_env["_1"]
    q = field(ex, arg, bgc.index("query"), "exprs::AccessQuery<'_>")
    match_all = field(ex, q, aq.index("match_all"), "bool")[1]
    not_empty = field(ex, arg, bgc.index("not_empty"), "bool")[1]
    bad = []
    for p in ex.paths:
        rtag, rst = ret_ok_status(p)
        qs = calls(p, "query")
        if rtag is None or len(qs) > 1:
            bad.append(pc_term(p.pc))
            continue
        if not qs:
            good = f"(= {rtag} 1)"                  # start_record failed
            bad.append(f"(and {pc_term(p.pc)} (not (ite {rec_ok(p)} false {good})))")
            continue
        qtag = qs[0][3][2]
        vec = qs[0][3][3]["Ok"]
        n = ex.len_of(vec)
        its = iterations(ex, p)
        bodies = calls(p, "eval_general_block_clause")
        # bodies are evaluated exactly for the resolved / literal elements, in order
        some_elems = [(k, elem, tag) for k, elem, tag, _i in its]
        body_terms = []
        for b in bodies:
            body_terms.append((b[3][2], b[3][3]["Ok"][2]))
        # number of resolved elements on this path must equal the number of body evaluations (structure)
        resolved_cnt = "(+ 0 " + " ".join(f"(ite (and (= {tag} 1) (not (= {disc(ex, elem)} {UNRES}))) 1 0)" for k, elem, tag in some_elems) + ")" \
            if some_elems else "0"
        anyerr = "(or false " + " ".join(f"(= {bt} 1)" for bt, _ in body_terms) + ")"
        struct_ok = f"(or {anyerr} (= {resolved_cnt} {len(bodies)}))"
        fail_terms = [f"(and (= {tag} 1) (= {disc(ex, elem)} {UNRES}))" for k, elem, tag in some_elems] + \
                     [f"(and (= {bt} 0) (= {bs} {F}))" for bt, bs in body_terms]
        pass_terms = [f"(and (= {bt} 0) (= {bs} {P}))" for bt, bs in body_terms]
        anyf = "(or false " + " ".join(fail_terms) + ")"
        anyp = "(or false " + " ".join(pass_terms) + ")"
        exp_nonempty = (f"(ite {match_all} (ite {anyf} {F} (ite {anyp} {P} {S})) "
                        f"(ite {anyp} {P} (ite {anyf} {F} {S})))")
        exp = f"(ite (= {n} 0) (ite {not_empty} {F} {S}) {exp_nonempty})"
        rec = last_block_record(p, "BlockGuardCheck")
        rec_good = f"(= {rec} {rst})" if (rec is not None and rst is not None) else "false"
        ok_good = f"(and (= {qtag} 0) (not {anyerr}) (= {rst} {exp}) {rec_good} {struct_ok})" if rst is not None else "false"
        err_good = f"(or (= {qtag} 1) {anyerr})"
        good = f"(ite (= {rtag} 0) {ok_good} {err_good})"
        good = f"(ite {rec_ok(p)} {good} (= {rtag} 1))"
        bad.append(f"(and {pc_term(p.pc)} (not {good}))")
    c = a.discharge("eval_guard_block_clause/aggregate", ex, bad,
                    "query block over <= 2 selected values (query result and per-value block statuses symbolic): empty selection -> SKIP "
                    "(FAIL for `!empty` blocks); unresolved values count as FAIL; all-quantified: FAIL if any value fails, else PASS if "
                    "one passes, else SKIP; some-quantified: PASS if one passes, else FAIL if one fails, else SKIP; the block is evaluated "
                    "once per resolved value; the BlockGuardCheck record carries the returned status; Err only from a callee")
    if c:
        c["replay"] = replay_guard_block(a)
        c["reproduced"] = c["replay"].get("reproduced", False)
        a.candidates.append(c)
    a.note_cut("eval_guard_block_clause", ex)


def _fold(outs, some):
    f, p_ = "FAIL" in outs, "PASS" in outs
    if some:
        return "PASS" if p_ else ("FAIL" if f else "SKIP")
    return "FAIL" if f else ("PASS" if p_ else "SKIP")


def _body(outs, keyexpr):
    """block body whose status for the i-th selected value (distinguished by `keyexpr == i+1`) is outs[i]"""
    lines = []
    for i, o in enumerate(outs):
        if o == "PASS":
            lines.append(f"when {keyexpr} == {i + 1} {{ {keyexpr} >= 0 }}")
        elif o == "FAIL":
            lines.append(f"when {keyexpr} == {i + 1} {{ {keyexpr} == 99 }}")
    if not lines:
        lines.append(f"when {keyexpr} == 99 {{ {keyexpr} == 1 }}")
    return "\n    ".join(lines)


def replay_guard_block(a):
    """query blocks over two values with every combination of per-value block outcomes x all / some, plus the
    empty-selection and unresolved-value cases"""
    import itertools
    exe = a.cli()
    if not exe:
        return {"reproduced": False, "note": "native build failed"}
    data = '{"L": [ {"x": 1}, {"x": 2} ],\n "E": [],\n "M": [ {"x": 1}, {"y": 1} ]}\n'
    cases = [("L[ x == 9 ] { x == 1 }", "SKIP"), ("L[ x == 9 ] !empty { x == 1 }", "FAIL"),
             ("M[*].x { this == 1 }", "FAIL"), ("some M[*].x { this == 1 }", "PASS"), ("some M[*].x { this == 5 }", "FAIL"),
             # one selected value missing (unresolved = FAIL) next to a resolved one whose block is SKIP / PASS / FAIL
             ("some M[*].x {\n    when this == 9 { this == 1 }\n  }", "FAIL"), ("M[*].x {\n    when this == 9 { this == 1 }\n  }", "FAIL"),
             ("some M[*].x {\n    when this == 1 { this == 1 }\n  }", "PASS"), ("M[*].x {\n    when this == 1 { this == 1 }\n  }", "FAIL"),
             ("some M[*].x {\n    when this == 1 { this == 2 }\n  }", "FAIL"), ("some M[*].z { this == 1 }", "FAIL"), ("M[*].z { this == 1 }", "FAIL")]
    for outs in itertools.product(("PASS", "FAIL", "SKIP"), repeat=2):
        for some in (False, True):
            cases.append((("some " if some else "") + "L[*] {\n    " + _body(outs, "x") + "\n  }", _fold(outs, some)))
    return a.replay_cases(exe, data, cases)


# --------------------------------------------------------------------------------------------------
# eval_type_block_clause  (`AWS::X::Y { ... }`, optional `when`)
# --------------------------------------------------------------------------------------------------
def type_block(a):
    QR = enum_variants(a.src, "rules/mod.rs", "QueryResult")
    UNRES = QR.index("UnResolved")
    ex = a.exec(r"(?:(?:rules::)?eval::)?eval_type_block_clause",
                {"query": m_result_opq, "eval_general_block_clause": mirexec.m_result_status,
                 "eval_conjunction_clauses": mirexec.m_result_status, "next": mirexec.m_iter_next},
                unroll=2, max_paths=40000)
    a.fns.append("rules::eval::eval_type_block_clause")
    P, F, S = a.P, a.F, a.S
    bad = []
    for p in ex.paths:
        rtag, rst = ret_ok_status(p)
        conds = calls(p, "eval_conjunction_clauses")
        qs = calls(p, "query")
        bodies = calls(p, "eval_general_block_clause")
        if rtag is None or len(qs) > 1 or len(conds) > 1:
            bad.append(pc_term(p.pc))
            continue
        recs = [typecheck_status(e[2][2]) for _i, e in end_records(p) if len(e[2]) > 2]
        recs = [r for r in recs if r is not None]
        rec_good = f"(= {recs[-1]} {rst})" if (recs and rst is not None) else "false"
        parts = []
        cond_pass = "true"
        if conds:
            ctag, cst = conds[0][3][2], conds[0][3][3]["Ok"][2]
            cond_pass = f"(and (= {ctag} 0) (= {cst} {P}))"
        if not qs:
            # the query is not run: only when the `when` did not pass (or a recorder call failed)
            if conds:
                ok_good = f"(and (= {ctag} 0) (not (= {cst} {P})) (= {rst} {S}) {rec_good})" if rst is not None else "false"
                good = f"(ite (= {rtag} 0) {ok_good} (= {ctag} 1))"
            else:
                good = f"(= {rtag} 1)"
                good = f"(ite {rec_ok(p)} false {good})"
                bad.append(f"(and {pc_term(p.pc)} (not {good}))")
                continue
        else:
            qtag = qs[0][3][2]
            vec = qs[0][3][3]["Ok"]
            n = ex.len_of(vec)
            its = [(k, elem, tag) for k, elem, tag, _i in iterations(ex, p)]
            body_terms = [(b[3][2], b[3][3]["Ok"][2]) for b in bodies]
            anyerr = "(or false " + " ".join(f"(= {bt} 1)" for bt, _ in body_terms) + ")"
            anyunres = "(or false " + " ".join(f"(and (= {tag} 1) (= {disc(ex, elem)} {UNRES}))" for k, elem, tag in its) + ")"
            resolved_cnt = "(+ 0 " + " ".join(f"(ite (= {tag} 1) 1 0)" for k, elem, tag in its) + ")" if its else "0"
            struct_ok = f"(or {anyerr} {anyunres} (= {resolved_cnt} {len(bodies)}))"
            anyf = "(or false " + " ".join(f"(and (= {bt} 0) (= {bs} {F}))" for bt, bs in body_terms) + ")"
            anyp = "(or false " + " ".join(f"(and (= {bt} 0) (= {bs} {P}))" for bt, bs in body_terms) + ")"
            exp = f"(ite (= {n} 0) {S} (ite {anyf} {F} (ite {anyp} {P} {S})))"
            ok_good = (f"(and {cond_pass} (= {qtag} 0) (not {anyerr}) (not {anyunres}) (= {rst} {exp}) {rec_good} {struct_ok})"
                       if rst is not None else "false")
            # an unresolved type-block value is an evaluation error (documented: type blocks need resolvable resources)
            err_good = f"(and {cond_pass} (or (= {qtag} 1) {anyerr} {anyunres}))"
            good = f"(ite (= {rtag} 0) {ok_good} {err_good})"
        good = f"(ite {rec_ok(p)} {good} (= {rtag} 1))"
        bad.append(f"(and {pc_term(p.pc)} (not {good}))")
    c = a.discharge("eval_type_block_clause/aggregate", ex, bad,
                    "type block over <= 2 resources: a `when` that is not PASS makes the block SKIP and neither the query nor the body "
                    "is evaluated; no resource of the type -> SKIP; else FAIL if the body fails for a resource, else PASS if it passes "
                    "for one, else SKIP; body evaluated once per resource; the TypeCheck record carries the returned status")
    if c:
        c["replay"] = replay_type_block(a)
        c["reproduced"] = c["replay"].get("reproduced", False)
        a.candidates.append(c)
    a.note_cut("eval_type_block_clause", ex)


def replay_type_block(a):
    """type blocks over two resources with every combination of per-resource outcomes, with and without `when`"""
    import itertools
    exe = a.cli()
    if not exe:
        return {"reproduced": False, "note": "native build failed"}
    data = ('{"Resources": {\n "a": {"Type": "AWS::S3::Bucket", "Properties": {"x": 1}},\n'
            ' "b": {"Type": "AWS::S3::Bucket", "Properties": {"x": 2}},\n "c": {"Type": "AWS::SQS::Queue", "Properties": {"x": 1}}}}\n')
    cases = [("AWS::SQS::Queue { Properties.x == 1 }", "PASS"), ("AWS::EC2::Instance { Properties.x == 1 }", "SKIP"),
             ("AWS::S3::Bucket when Resources.a.Properties.x == 2 { Properties.x == 7 }", "SKIP"),
             ("AWS::S3::Bucket when Resources.a.Properties.x == 1 { Properties.x == 7 }", "FAIL")]
    for outs in itertools.product(("PASS", "FAIL", "SKIP"), repeat=2):
        cases.append(("AWS::S3::Bucket {\n    " + _body(outs, "Properties.x") + "\n  }", _fold(outs, False)))
    return a.replay_cases(exe, data, cases)


# --------------------------------------------------------------------------------------------------
# binary_operation: per-value comparison outcome -> per-value status
# --------------------------------------------------------------------------------------------------
def binary_operation(a):
    VER = enum_variants(a.src, "rules/eval/operators.rs", "ValueEvalResult")
    CR = enum_variants(a.src, "rules/eval/operators.rs", "ComparisonResult")
    ER = enum_variants(a.src, "rules/eval/operators.rs", "EvalResult")
    ex = a.exec(r"(?:(?:rules::)?eval::)?binary_operation",
                {"query": m_result_opq, "compare": m_result_opq, "next": mirexec.m_iter_next},
                log=("push",), unroll=1, max_paths=60000)
    a.fns.append("rules::eval::binary_operation")
    P, F, S = a.P, a.F, a.S
    bad = []
    npush = 0
    for p in ex.paths:
        cmpc = calls(p, "compare")
        r = p.ret
        if not r or r[0] != "enum" or r[1] != "Result" or len(cmpc) > 1:
            bad.append(pc_term(p.pc))
            continue
        rtag = r[2]
        if not cmpc:
            bad.append(f"(and {pc_term(p.pc)} (not (= {rtag} 1)))")     # the query failed: Err
            continue
        ctag = cmpc[0][3][2]
        evr = cmpc[0][3][3]["Ok"]
        d_evr = disc(ex, evr)
        okv = r[3].get("Ok")
        parts = [f"(=> (= {ctag} 1) (= {rtag} 1))"]
        # Skip -> EmptyQueryResult(SKIP)
        if okv is not None and okv[0] == "variant":
            if okv[2] == "EmptyQueryResult":
                st = okv[3][0]
                parts.append(f"(=> (= {rtag} 0) (and (= {d_evr} {ER.index('Skip')}) " +
                             (f"(= {st[2]} {S})" if st[0] == "enum" else "false") + "))")
            else:
                parts.append(f"(=> (= {rtag} 0) (= {d_evr} {ER.index('Result')}))")
        # every pushed (value, status): PASS iff the element being reported is a Success
        vec = payload(ex, evr, "Result")
        outer = iterations(ex, p, it_filter=lambda ev: bool(ev[2]) and ev[2][0] == vec)
        cur = None
        idx_of = {i: (k, elem) for k, elem, tag, i in outer}
        for i, e in enumerate(p.events):
            if i in idx_of:
                cur = idx_of[i][1]
            if e[0] == "call" and e[1] == "push" and len(e[2]) == 2 and e[2][1][0] == "tuple" and len(e[2][1][1]) == 2:
                stv = e[2][1][1][1]
                if stv[0] != "enum":
                    continue
                npush += 1
                if cur is None:
                    parts.append("false")
                    continue
                d1 = disc(ex, cur)
                inner = payload(ex, cur, "ComparisonResult")
                d2 = disc(ex, inner)
                is_succ = f"(and (= {d1} {VER.index('ComparisonResult')}) (= {d2} {CR.index('Success')}))"
                parts.append(f"(= (= {stv[2]} {P}) {is_succ})")
                parts.append(f"(or (= {stv[2]} {P}) (= {stv[2]} {F}))")
        good = "(and " + " ".join(parts) + ")"
        good = f"(ite {rec_ok(p)} {good} (= {rtag} 1))"
        bad.append(f"(and {pc_term(p.pc)} (not {good}))")
    c = a.discharge("binary_operation/value-status", ex, bad,
                    f"binary_operation (result vector of <= 1 comparison outcomes, nested lists of <= 1 values; {npush} status pushes "
                    "over all paths): an empty operand set (Skip) gives SKIP; a value is reported PASS exactly when its comparison "
                    "outcome is Success, and FAIL for Fail, NotComparable and unresolved left/right operands (never SKIP)")
    if c:
        c["replay"] = replay_binary(a)
        c["reproduced"] = c["replay"].get("reproduced", False)
        a.candidates.append(c)
    a.note_cut("binary_operation", ex)


def binary_records(a):
    """C09 / C10 / C02: what binary_operation writes down per comparison outcome. The record's `comparison` is the operator pair the
    function was given; its `from` is the LEFT value of the outcome being reported (pair.lhs / ListIn.lhs / an element of QueryIn.diff /
    the unresolved left value), its `to` for a plain comparison the RIGHT value of the same outcome; the (value, status) entry handed back
    carries that same left value"""
    PAIR = struct_fields(a.src, "rules/eval/operators.rs", "LhsRhsPair")
    QIN = struct_fields(a.src, "rules/eval/operators.rs", "QueryIn")
    LIN = struct_fields(a.src, "rules/eval/operators.rs", "ListIn")
    NC = struct_fields(a.src, "rules/eval/operators.rs", "NotComparable")
    ex = a.exec(r"(?:(?:rules::)?eval::)?binary_operation", {"query": m_result_opq, "compare": m_result_opq, "next": mirexec.m_iter_next},
                log=("push",), unroll=1, max_paths=60000, deepen=False)
    a.fns.append("rules::eval::binary_operation (records)")
    cmp_arg = ex.arg_env["_3"]
    lhs_suffix = {"Value": [f".{PAIR.index('lhs')}"], "ValueIn": [f".{PAIR.index('lhs')}"], "ListIn": [f".{LIN.index('lhs')}"]}
    rhs_suffix = {"Value": [f".{PAIR.index('rhs')}"], "ValueIn": [f".{PAIR.index('rhs')}"], "ListIn": [f".{LIN.index('rhs')}"]}
    bad, nrec = [], 0
    for p in ex.paths:
        cmpc = calls(p, "compare")
        if not cmpc or cmpc[0][3][0] != "enum":
            continue
        vec = payload(ex, cmpc[0][3][3]["Ok"], "Result")
        outer = iterations(ex, p, it_filter=lambda ev: bool(ev[2]) and ev[2][0] == vec)
        idx_of = {i: elem for k, elem, tag, i in outer}
        cur, probs, last_from = None, [], None
        for i, e in enumerate(p.events):
            if i in idx_of:
                cur, last_from = idx_of[i], None
            if e[0] != "call":
                continue
            if e[1] == "end_record" and len(e[2]) > 2 and e[2][2][0] == "variant" and e[2][2][2] == "ClauseValueCheck":
                cl = e[2][2][3][0]
                if cl[0] != "variant" or cl[2] not in ("Comparison", "InComparison"):
                    continue
                nrec += 1
                f = cl[3][0][2] if cl[3] and cl[3][0][0] == "struct" else {}
                if f.get("comparison") != cmp_arg:
                    probs.append("a record carries another operator pair than the one given")
                # C09: `carries that clause's custom message`: the custom message is the one handed in; the error message is the
                # comparison's own reason for a not-comparable pair and absent otherwise
                if f.get("custom_message") != ex.arg_env["_5"]:
                    probs.append("a record's custom message is not the clause's")
                msg = f.get("message")
                if msg is not None and msg[0] == "enum" and msg[1] == "Option":
                    mp = msg[3].get("Some")
                    if msg[2] == "1" or (mp is not None and msg[2] not in ("0",)):
                        mo, mks = _origin(ex, mp) if mp is not None and mp[0] == "opaque" else (None, [])
                        co_, cks_ = _origin(ex, cur) if cur is not None else (None, [])
                        if not (mo == co_ and mks == cks_ + ["as ComparisonResult.0", "as NotComparable.0", f".{NC.index('reason')}"]):
                            probs.append("a record's error message is not the reason of the not-comparable outcome being reported")
                elif msg is not None:
                    probs.append("a record's error message has an unexpected shape")
                frm = f.get("from")
                fv = frm[3][0] if frm is not None and frm[0] == "variant" and frm[3] else None
                o, ks = _origin(ex, fv) if fv is not None else (None, [])
                co, cks = _origin(ex, cur) if cur is not None else (None, None)
                if cur is None or o != co or ks[:len(cks)] != cks:
                    probs.append("a record's `from` is not taken from the outcome being reported")
                    continue
                rest = ks[len(cks):]
                last_from = fv
                # which outcome kind, and is it the LEFT value?
                if rest[:1] == ["as LhsUnresolved.0"]:
                    ok = frm[2] == "UnResolved" and rest == ["as LhsUnresolved.0"]
                elif rest[:2] == ["as ComparisonResult.0", "as RhsUnresolved.1"]:
                    ok = frm[2] == "Resolved" and len(rest) == 2
                elif rest[:2] == ["as ComparisonResult.0", "as NotComparable.0"]:
                    ok = frm[2] == "Resolved" and rest[2:] == [f".{NC.index('pair')}", f".{PAIR.index('lhs')}"]
                elif rest[:2] == ["as ComparisonResult.0", "as Fail.0"] and len(rest) >= 4:
                    kind = rest[2][3:-2] if rest[2].startswith("as ") else None
                    if kind == "QueryIn":
                        ok = frm[2] == "Resolved" and rest[3] == f".{QIN.index('diff')}" and len(rest) == 5 and rest[4].startswith("[")
                    else:
                        ok = frm[2] == "Resolved" and kind in lhs_suffix and rest[3:] == lhs_suffix[kind]
                        if ok and kind == "Value":
                            to = f.get("to")
                            tv = to[3].get("Some") if to is not None and to[0] == "enum" else None
                            tvv = tv[3][0] if tv is not None and tv[0] == "variant" and tv[2] == "Resolved" and tv[3] else None
                            to_o, to_ks = _origin(ex, tvv) if tvv is not None else (None, [])
                            ok = to_o == co and to_ks == cks + rest[:3] + rhs_suffix["Value"]
                else:
                    ok = False
                if not ok:
                    probs.append("a record's `from` / `to` is not the left / right value of the outcome being reported")
            elif e[1] == "push" and len(e[2]) == 2 and e[2][1][0] == "tuple" and len(e[2][1][1]) == 2 and e[2][1][1][1][0] == "enum":
                val = e[2][1][1][0]
                vv = val[3][0] if val[0] == "variant" and val[3] else None
                st = e[2][1][1][1][2]
                if last_from is not None and vv != last_from and st == str(a.F):
                    probs.append("the value handed back differs from the value recorded")
        bad.append(f"(and {pc_term(p.pc)} (not {'false' if probs else 'true'}))")
    c = a.discharge("binary_operation/records", ex, bad,
                    f"binary_operation ({nrec} comparison records over all paths, <= 1 outcome per loop): every record carries the operator pair given; "
                    "`from` is the left value of the outcome being reported (the unresolved left value / pair.lhs / ListIn.lhs / an element of "
                    "QueryIn.diff), `to` of a plain comparison the right value of the same outcome; the FAIL entry handed back is that same left value")
    if c:
        import mirflow
        c["replay"] = mirflow.replay_clause_reports(a)
        c["reproduced"] = c["replay"].get("reproduced", False)
        a.candidates.append(c)


def replay_binary(a):
    exe = a.cli()
    if not exe:
        return {"reproduced": False, "note": "native build failed"}
    data = '{"X": 1,\n "S": "a", "L": [1, 2], "E": []}\n'
    cases = [("X == 1", "PASS"), ("X == 2", "FAIL"), ("X != 1", "FAIL"), ("X != 2", "PASS"), ("X == \"a\"", "FAIL"),
             ("X != \"a\"", "FAIL"), ("X > \"a\"", "FAIL"), ("X !> \"a\"", "FAIL") if False else ("X <= \"a\"", "FAIL"),
             ("Y == 1", "FAIL"), ("Y != 1", "FAIL"), ("X == Y", "FAIL"), ("X in [1, 2]", "PASS"), ("X in [3]", "FAIL"),
             ("X not in [3]", "PASS"), ("L[*] in [1, 2]", "PASS"), ("L[*] == 1", "FAIL"), ("some L[*] == 1", "PASS"),
             ("E[*] == 1", "FAIL"), ("L[ this == 9 ] == 1", "SKIP"),
             # a right-hand QUERY that selects nothing: the comparison is SKIP under every negation
             ("X in %none", "SKIP"), ("X not in %none", "SKIP"), ("not X in %none", "SKIP"), ("not X not in %none", "SKIP"),
             ("X == %none", "SKIP"), ("X != %none", "SKIP"), ("L[*] not in %none", "SKIP"), ("X > %none", "SKIP")]
    return a.replay_cases(exe, data, cases, prefix="let none = L[ this == 99 ]\n")


# --------------------------------------------------------------------------------------------------
# operator-level negation: the result-flipping closure of `(CmpOperator, bool)::compare`
# --------------------------------------------------------------------------------------------------
OPS_IMPL = r"(?:rules::eval::)?operators::<impl at guard/src/rules/eval/operators\.rs:\d+:\d+: \d+:\d+>::compare"


def flip_closure(a):
    VER = enum_variants(a.src, "rules/eval/operators.rs", "ValueEvalResult")
    CR = enum_variants(a.src, "rules/eval/operators.rs", "ComparisonResult")
    CMP = enum_variants(a.src, "rules/eval/operators.rs", "Compare")
    ex = a.exec(OPS_IMPL + r"::\{closure#0\}", {"is_empty": mirexec.m_is_empty, "next": mirexec.m_iter_next},
                unroll=1, max_paths=20000, first_arg_re=r"_1: &mut \{closure@[^}]*\}, _2: (?:operators::)?ValueEvalResult")
    a.fns.append("rules::eval::operators::<(CmpOperator, bool) as Comparator>::compare::{closure#0} (result flipping)")
    e = ex.arg_env["_2"]
    d1 = disc(ex, e)
    cr = payload(ex, e, "ComparisonResult")
    d2 = disc(ex, cr)
    SUCC, FAIL_, NC, RU = (CR.index(x) for x in ("Success", "Fail", "NotComparable", "RhsUnresolved"))
    is_cr = f"(= {d1} {VER.index('ComparisonResult')})"
    bad = []

    def shape(v):
        """(outer variant, inner variant, compare value) of a constructed ValueEvalResult"""
        if v and v[0] == "variant" and v[2] == "ComparisonResult" and v[3] and v[3][0][0] == "variant":
            return v[3][0][2], (v[3][0][3][0] if v[3][0][3] else None)
        return None, None
    LISTIN = CMP.index("ListIn")
    for p in ex.paths:
        r = p.ret
        if r is None:
            bad.append(pc_term(p.pc))
            continue
        if p.outcome == "panic":
            # the only panic allowed is `unreachable!()` for a ListIn whose lhs is not a list (ListIn is only ever
            # constructed by contained_in for a list lhs): a panic on any other outcome kind is a violation
            ds, df = disc(ex, payload(ex, cr, "Success")), disc(ex, payload(ex, cr, "Fail"))
            allowed = f"(and {is_cr} (or (and (= {d2} {SUCC}) (= {ds} {LISTIN})) (and (= {d2} {FAIL_}) (= {df} {LISTIN}))))"
            bad.append(f"(and {pc_term(p.pc)} (not {allowed}))")
            continue
        same = (r[0] == "opaque" and e[0] == "opaque" and r[1] == e[1])
        inner, cmpv = shape(r)
        src_s, src_f = payload(ex, cr, "Success"), payload(ex, cr, "Fail")
        d3s, d3f = disc(ex, src_s), disc(ex, src_f)
        simple_s = f"(or (= {d3s} {CMP.index('Value')}) (= {d3s} {CMP.index('ValueIn')}))"
        simple_f = f"(or (= {d3f} {CMP.index('Value')}) (= {d3f} {CMP.index('ValueIn')}))"

        def kept(src):
            return "true" if (cmpv is not None and cmpv[0] == "opaque" and src[0] == "opaque" and cmpv[1] == src[1]) else "false"
        if same:
            good = f"(not (and {is_cr} (or (= {d2} {SUCC}) (= {d2} {FAIL_}))))"
        elif inner == "Success":
            good = f"(and {is_cr} (= {d2} {FAIL_}) (=> {simple_f} {kept(src_f)}))"
        elif inner == "Fail":
            good = (f"(and {is_cr} (or (and (= {d2} {SUCC}) (=> {simple_s} {kept(src_s)})) "
                    f"(and (= {d2} {FAIL_}) (not {simple_f}))))")
        else:
            good = "false"
        bad.append(f"(and {pc_term(p.pc)} (not {good}))")
    c = a.discharge("operators::negated-compare/flip-table", ex, bad,
                    "operator-level `not` (`!=`, `not in`, `!<` ...): a Success outcome always becomes Fail; a Fail outcome of a "
                    "value / value-in comparison becomes Success with the same operands; NotComparable and unresolved operands are "
                    "returned unchanged (they stay FAIL under negation); list-in / query-in Fail outcomes become Success or Fail")
    if c:
        c["replay"] = replay_negation(a)
        if not c["replay"].get("reproduced"):
            c["replay"] = replay_binary(a)
        c["reproduced"] = c["replay"].get("reproduced", False)
        a.candidates.append(c)


def negated_compare_wrapper(a):
    """`(CmpOperator, bool)::compare`: delegates to the operator with the operands in order; without the flag the
    result is returned unchanged; Skip stays Skip"""
    ER = enum_variants(a.src, "rules/eval/operators.rs", "EvalResult")
    ex = a.exec(OPS_IMPL, {"compare": m_result_opq}, unroll=1, max_paths=20000,
                first_arg_re=r"_1: &\((?:rules::)?values::CmpOperator, bool\)")
    a.fns.append("rules::eval::operators::<(CmpOperator, bool) as Comparator>::compare")
    flag = field(ex, ex.arg_env["_1"], 1, "bool")[1]
    lhs, rhs = ex.arg_env["_2"], ex.arg_env["_3"]
    bad = []
    for p in ex.paths:
        cs = calls(p, "compare")
        r = p.ret
        if not r or r[0] != "enum" or len(cs) != 1:
            bad.append(pc_term(p.pc))
            continue
        argv = cs[0][2]
        # the comparison is made by the clause's own operator (self.0), on (lhs, rhs) in that order
        order_ok = len(argv) == 3 and argv[1] == lhs and argv[2] == rhs and argv[0] == field(ex, ex.arg_env["_1"], 0, "CmpOperator")
        ctag, evr = cs[0][3][2], cs[0][3][3]["Ok"]
        d = disc(ex, evr)
        okv = r[3].get("Ok")
        parts = ["true" if order_ok else "false", f"(= {r[2]} {ctag})"]
        if okv is not None:
            if okv[0] == "variant" and okv[2] == "Skip":
                parts.append(f"(= {d} {ER.index('Skip')})")
            elif okv[0] == "variant" and okv[2] == "Result":
                inner = okv[3][0]
                unchanged = inner[0] == "opaque" and inner == payload(ex, evr, "Result")
                parts.append(f"(= {d} {ER.index('Result')})")
                parts.append(f"(=> (not {flag}) {'true' if unchanged else 'false'})")
                parts.append(f"(=> {flag} {'false' if unchanged else 'true'})")
            elif okv[0] == "opaque" and okv == evr:
                parts.append(f"(or (not {flag}) (= {d} {ER.index('Skip')}))")
            else:
                parts.append("false")
        bad.append(f"(and {pc_term(p.pc)} (not (and {' '.join(parts)})))")
    c = a.discharge("operators::negated-compare/wrapper", ex, bad,
                    "(op, not).compare(lhs, rhs) calls op.compare(lhs, rhs) once with the operands in that order; an Err is passed on; "
                    "Skip stays Skip; without `not` the result vector is returned as is, with `not` it is rebuilt by the flipping closure")
    if c:
        c["replay"] = replay_negation(a)
        if not c["replay"].get("reproduced"):
            c["replay"] = replay_binary_ord(a)
        if not c["replay"].get("reproduced"):
            c["replay"] = replay_binary(a)
        c["reproduced"] = c["replay"].get("reproduced", False)
        a.candidates.append(c)


def operator_dispatch(a):
    """CmpOperator::compare: empty operand set -> Skip; each operator is evaluated by its own comparison"""
    OPS = enum_variants(a.src, "rules/values.rs", "CmpOperator")
    ex = a.exec(OPS_IMPL, {"compare": m_result_opq, "is_empty": mirexec.m_is_empty}, unroll=1, max_paths=20000,
                first_arg_re=r"_1: &(?:rules::)?values::CmpOperator,")
    a.fns.append("rules::eval::operators::<CmpOperator as Comparator>::compare")
    op = disc(ex, ex.arg_env["_1"])
    lhs, rhs = ex.arg_env["_2"], ex.arg_env["_3"]
    nl, nr = ex.len_of(lhs), ex.len_of(rhs)
    want = {"Eq": ("EqOperation", None), "In": ("InOperation", None), "Lt": ("CommonOperator", "compare_lt"),
            "Le": ("CommonOperator", "compare_le"), "Gt": ("CommonOperator", "compare_gt"), "Ge": ("CommonOperator", "compare_ge")}
    bad = []
    for p in ex.paths:
        cs = calls(p, "compare")
        r = p.ret
        if r is None or len(cs) > 1:
            bad.append(pc_term(p.pc))
            continue
        empty = f"(or (= {nl} 0) (= {nr} 0))"
        if not cs:
            # no comparison made: either an operand set is empty (-> Ok(Skip)) or the operator is not a binary one (-> Err)
            is_skip = (r[0] == "enum" and r[1] == "Result" and r[3].get("Ok") and r[3]["Ok"][0] == "variant" and r[3]["Ok"][2] == "Skip")
            is_err = (r[0] == "enum" and r[1] == "Result" and r[2] == "1")
            binop = "(or " + " ".join(f"(= {op} {OPS.index(k)})" for k in want) + ")"
            if is_skip:
                bad.append(f"(and {pc_term(p.pc)} (not {empty}))")
            elif is_err:
                bad.append(f"(and {pc_term(p.pc)} (or {empty} {binop}))")
            else:
                bad.append(pc_term(p.pc))
            continue
        callee = cs[0][5]
        impl = re.search(r"<(\w+) as (?:\w+::)*Comparator>", callee)
        impl = impl.group(1) if impl else None
        selfv = cs[0][2][0]
        fnv = None
        if selfv[0] == "struct" and selfv[2].get("comparator", ("",))[0] == "fn":
            fnv = selfv[2]["comparator"][1]
        order_ok = len(cs[0][2]) == 3 and cs[0][2][1] == lhs and cs[0][2][2] == rhs
        alts = [f"(= {op} {OPS.index(k)})" for k, (i2, f2) in want.items() if i2 == impl and f2 == fnv]
        good = "(and (not " + empty + ") " + ("(or false " + " ".join(alts) + ")") + (" true" if order_ok and r == cs[0][3] else " false") + ")"
        bad.append(f"(and {pc_term(p.pc)} (not {good}))")
    c = a.discharge("operators::CmpOperator::compare/dispatch", ex, bad,
                    "an empty left or right operand set gives Skip; otherwise == is evaluated by EqOperation, `in` by InOperation, "
                    "< <= > >= by CommonOperator with compare_lt / compare_le / compare_gt / compare_ge respectively, on (lhs, rhs) in "
                    "that order, and the result is returned unchanged; unary operators are rejected with an error")
    if c:
        c["replay"] = replay_binary_ord(a)
        c["reproduced"] = c["replay"].get("reproduced", False)
        a.candidates.append(c)


def replay_negation(a):
    """prefix `not` / `!` on every binary operator against a value below / equal / above the document's value, and
    the operator-level forms: the negated clause is PASS exactly when the plain clause is FAIL"""
    exe = a.cli()
    if not exe:
        return {"reproduced": False, "note": "native build failed"}
    data = '{"X": 1,\n "S": "b"}\n'
    import operator
    ops = {"<": operator.lt, "<=": operator.le, ">": operator.gt, ">=": operator.ge, "==": operator.eq, "!=": operator.ne}
    cases = []
    for sym, f in ops.items():
        for v in (0, 1, 2):
            truth = f(1, v)
            cases.append((f"X {sym} {v}", "PASS" if truth else "FAIL"))
            cases.append((f"not X {sym} {v}", "FAIL" if truth else "PASS"))
            cases.append((f"!X {sym} {v}", "FAIL" if truth else "PASS"))
    for v, truth in (("[0, 1]", True), ("[0, 2]", False)):
        cases += [(f"X in {v}", "PASS" if truth else "FAIL"), (f"X not in {v}", "FAIL" if truth else "PASS"),
                  (f"not X in {v}", "FAIL" if truth else "PASS"), (f"not X not in {v}", "PASS" if truth else "FAIL")]
    for sym, f in ops.items():
        for v in ("a", "b", "c"):
            truth = f("b", v)
            cases.append((f'not S {sym} "{v}"', "FAIL" if truth else "PASS"))
    # unary operators, all four polarity combinations (X exists, S is a string, S is not a list, Z does not exist)
    for clause, truth in (("X exists", True), ("Z exists", False), ("S is_string", True), ("X is_string", False), ("S is_list", False), ("S !empty", True)):
        q, op = clause.split(" ", 1)
        neg_op = op[1:] if op.startswith("!") else "!" + op
        cases += [(f"{q} {op}", "PASS" if truth else "FAIL"), (f"{q} {neg_op}", "FAIL" if truth else "PASS"),
                  (f"not {q} {op}", "FAIL" if truth else "PASS"), (f"not {q} {neg_op}", "PASS" if truth else "FAIL"),
                  (f"!{q} {neg_op}", "PASS" if truth else "FAIL")]
    return a.replay_cases(exe, data, cases)


def replay_binary_ord(a):
    exe = a.cli()
    if not exe:
        return {"reproduced": False, "note": "native build failed"}
    data = '{"X": 1,\n "Y": 2}\n'
    cases = [("X < 2", "PASS"), ("X < 1", "FAIL"), ("X <= 1", "PASS"), ("X <= 0", "FAIL"), ("X > 0", "PASS"), ("X > 1", "FAIL"),
             ("X >= 1", "PASS"), ("X >= 2", "FAIL"), ("X < Y", "PASS"), ("Y < X", "FAIL"), ("X == 1", "PASS"), ("X in [1]", "PASS")]
    return a.replay_cases(exe, data, cases)


# --------------------------------------------------------------------------------------------------
# the evaluation record tree: RecordTracker::start_record / end_record (stack discipline, well-nesting)
# --------------------------------------------------------------------------------------------------
TRACER_IMPL = r"(?:rules::)?eval_context::<impl at guard/src/rules/eval_context\.rs:\d+:\d+: \d+:\d+>::"


def record_tracker(a):
    ER = struct_fields(a.src, "rules/eval_context.rs", "EventRecord")
    RT_ = struct_fields(a.src, "rules/eval_context.rs", "RecordTracker")
    # ---- end_record
    ex = a.exec(TRACER_IMPL + "end_record", {"pop": mirexec.m_option, "last_mut": mirexec.m_option,
                                             "ne": lambda ex, av: ("bool", ex.fresh("Bool", "ctx_differs")),
                                             "eq": lambda ex, av: ("bool", f"(not {ex.fresh('Bool', 'ctx_differs')})")},
                log=("push", "replace"), unroll=1, max_paths=2000, first_arg_re=r"_1: &mut (?:eval_context::)?RecordTracker")
    a.fns.append("rules::eval_context::RecordTracker::end_record")
    me, record = ex.arg_env["_1"], ex.arg_env["_3"]
    events = field(ex, me, RT_.index("events"), "Vec")
    final = field(ex, me, RT_.index("final_event"), "Option")
    bad = []
    for p in ex.paths:
        r = p.ret
        pops, lasts = calls(p, "pop"), calls(p, "last_mut")
        pushes = [e for e in calls(p, "push") if len(e[2]) == 2]
        repl = calls(p, "replace")
        if p.outcome != "return" or not r or r[0] != "enum" or len(pops) != 1 or not same_v(pops[0][2][0], events):
            bad.append(pc_term(p.pc))
            continue
        had = f"(= {pops[0][3][2]} 1)"
        ev = pops[0][3][3].get("Some")
        differs = [e[3][1] for e in calls(p, "ne")] + [f"(not {e[3][1]})" for e in calls(p, "eq")]
        mism = differs[0] if differs else "false"
        if r[2] == "1":
            good = f"(or (not {had}) {mism})" if not (pushes or repl) else "false"
        else:
            stores = p.env.get("$stores") or {}
            cont = stores.get((ev[1], f".{ER.index('container')}")) if ev and ev[0] == "opaque" else None
            cont_ok = cont is not None and cont[0] == "enum" and cont[1] == "Option" and cont[2] == "1" and same_v(cont[3].get("Some"), record)
            attach_parent = (len(lasts) == 1 and same_v(lasts[0][2][0], events) and len(pushes) == 1 and not repl
                             and same_v(pushes[0][2][1], ev)
                             and same_v(pushes[0][2][0], field(ex, lasts[0][3][3].get("Some"), ER.index("children"), "Vec")))
            attach_root = (len(lasts) == 1 and not pushes and len(repl) == 1 and same_v(repl[0][2][0], final) and same_v(repl[0][2][1], ev))
            if cont_ok and attach_parent:
                good = f"(and {had} (not {mism}) (= {lasts[0][3][2]} 1))"
            elif cont_ok and attach_root:
                good = f"(and {had} (not {mism}) (= {lasts[0][3][2]} 0))"
            else:
                good = "false"
        bad.append(f"(and {pc_term(p.pc)} (not {good}))")
    a.discharge("RecordTracker::end_record/well-nested", ex, bad,
                "closing a record: an error if nothing is open or the innermost open record has another context (nothing is attached then); "
                "otherwise the innermost open record receives exactly the given container and is attached as the LAST child of the next "
                "open record, or becomes the root when none is open")
    # ---- start_record
    ex = a.exec(TRACER_IMPL + "start_record", {"to_string": mirexec.m_identity}, log=("push",), unroll=1, max_paths=200,
                first_arg_re=r"_1: &mut (?:eval_context::)?RecordTracker")
    a.fns.append("rules::eval_context::RecordTracker::start_record")
    me, ctx = ex.arg_env["_1"], ex.arg_env["_2"]
    events = field(ex, me, RT_.index("events"), "Vec")
    bad = []
    for p in ex.paths:
        pushes = [e for e in calls(p, "push") if len(e[2]) == 2]
        r = p.ret
        ok = (p.outcome == "return" and r and r[0] == "enum" and r[2] == "0" and len(pushes) == 1 and same_v(pushes[0][2][0], events)
              and pushes[0][2][1][0] == "struct" and same_v(pushes[0][2][1][2].get("context"), ctx)
              and pushes[0][2][1][2].get("container", ("",))[0] == "enum" and pushes[0][2][1][2]["container"][2] == "0")
        bad.append("false" if ok else pc_term(p.pc))
    a.discharge("RecordTracker::start_record/opens", ex, bad,
                "opening a record pushes one open record with the given context, no container yet, and always succeeds", witness=False)


# --------------------------------------------------------------------------------------------------
# operator layer kernels: match_value (outcome classification) and CommonOperator::compare (every pair, in order)
# --------------------------------------------------------------------------------------------------
def match_value(a):
    ERR = enum_variants(a.src, "rules/errors.rs", "Error")
    NC = ERR.index("NotComparable")

    def m_cmp(ex, argv):
        return ex.fresh_enum("Result", 2, "cmp", {"Ok": ("bool", ex.fresh("Bool", "outcome")), "Err": ex.opq()})
    ex = a.exec(r"(?:(?:rules::eval::)?operators::)?match_value", {"call": m_cmp, "success": lambda ex, av: ("variant", "X", "SUCCESS", list(av)),
                                                                 "fail": lambda ex, av: ("variant", "X", "FAIL", list(av))},
                unroll=1, max_paths=2000)
    a.fns.append("rules::eval::operators::match_value")
    lhs, rhs = ex.arg_env["_1"], ex.arg_env["_2"]
    bad = []
    for p in ex.paths:
        cs = calls(p, "call")
        if len(cs) != 1:
            bad.append(pc_term(p.pc))
            continue
        tag, okb, errv = cs[0][3][2], cs[0][3][3]["Ok"][1], cs[0][3][3]["Err"]
        d_err = disc(ex, errv)
        # the comparator is applied to (lhs, rhs) in that order
        av = cs[0][2][1] if len(cs[0][2]) > 1 else None
        order = av is not None and av[0] == "tuple" and len(av[1]) == 2 and av[1][0] == lhs and av[1][1] == rhs
        if p.outcome == "panic":
            # unreachable!(): only for an error that is not NotComparable (the ordering comparators never produce one)
            bad.append(f"(and {pc_term(p.pc)} (not (and (= {tag} 1) (not (= {d_err} {NC})))))")
            continue
        r = p.ret
        if r is None or r[0] != "variant" or not order:
            bad.append(pc_term(p.pc))
            continue
        if r[2] == "SUCCESS":
            good = f"(and (= {tag} 0) {okb})" if (r[3][0] == lhs and r[3][1] == rhs) else "false"
        elif r[2] == "FAIL":
            good = f"(and (= {tag} 0) (not {okb}))" if (r[3][0] == lhs and r[3][1] == rhs) else "false"
        elif r[2] == "ComparisonResult" and r[3] and r[3][0][0] == "variant" and r[3][0][2] == "NotComparable":
            ncs = r[3][0][3][0]
            pair = ncs[2].get("pair") if ncs[0] == "struct" else None
            keeps = pair is not None and pair[0] == "struct" and pair[2].get("lhs") == lhs and pair[2].get("rhs") == rhs
            good = f"(and (= {tag} 1) (= {d_err} {NC}))" if keeps else "false"
        else:
            good = "false"
        bad.append(f"(and {pc_term(p.pc)} (not {good}))")
    c = a.discharge("operators::match_value/classification", ex, bad,
                    "one comparison: the comparator is applied to (lhs, rhs) in that order; Ok(true) -> Success, Ok(false) -> Fail, "
                    "Err(NotComparable) -> NotComparable, each carrying the same two operands; the only panic path is an error that is not "
                    "NotComparable")
    if c:
        c["replay"] = replay_binary(a)
        c["reproduced"] = c["replay"].get("reproduced", False)
        a.candidates.append(c)


def common_operator(a):
    ex = a.exec(OPS_IMPL, {"flattened": lambda ex, av: ex.opq(), "match_value": lambda ex, av: ex.opq(), "next": mirexec.m_iter_next,
                           "into_iter": mirexec.m_new_iter, "iter": mirexec.m_new_iter, "with_capacity": lambda ex, av: ex.opq()},
                log=("push",), unroll=2, max_paths=20000, first_arg_re=r"_1: &(?:operators::)?CommonOperator")
    a.fns.append("rules::eval::operators::<CommonOperator as Comparator>::compare")
    me = ex.arg_env["_1"]
    bad, npairs = [], 0
    for p in ex.paths:
        r = p.ret
        fl = calls(p, "flattened")
        if p.outcome != "return" or len(fl) != 2 or not r or r[0] != "enum" or r[2] != "0":
            bad.append(pc_term(p.pc))
            continue
        L, R = fl[0][3], fl[1][3]
        probs = []
        if not (same_v(fl[0][2][0], ex.arg_env["_2"]) and same_v(fl[1][2][0], ex.arg_env["_3"])):
            probs.append("operands flattened in the wrong roles")
        outer = iterations(ex, p, it_filter=lambda ev: ex.iter_src.get(ev[2][0][1], ev[2][0]) == L)
        inner = iterations(ex, p, it_filter=lambda ev: ex.iter_src.get(ev[2][0][1], ev[2][0]) == R)
        o_idx = {i: (k, el, t) for k, el, t, i in outer}
        i_idx = {i: (k, el, t) for k, el, t, i in inner}
        cur_o, cur_i, pairs = None, None, []
        mv = []
        for i, e in enumerate(p.events):
            if i in o_idx:
                cur_o = o_idx[i]
            if i in i_idx:
                cur_i = i_idx[i]
            if e[0] == "call" and e[1] == "match_value":
                npairs += 1
                ok = (len(e[2]) == 3 and cur_o and cur_i and same_v(e[2][0], cur_o[1]) and same_v(e[2][1], cur_i[1])
                      and same_v(e[2][2], field(ex, me, 0, "fn")))
                if not ok:
                    probs.append("a pair is not compared as (this lhs value, this rhs value, the operator's comparator)")
                mv.append(e)
        pushes = [e for e in calls(p, "push") if len(e[2]) == 2]
        for j, e in enumerate(mv):
            if j >= len(pushes) or not same_v(pushes[j][2][1], e[3]):
                probs.append("a comparison outcome is not appended to the results in order")
        # completeness: (number of lhs values) x (number of rhs values) comparisons were made
        n_o = "(+ 0 0 " + " ".join(f"(ite (= {t} 1) 1 0)" for _k, _e, t, _i in outer) + ")"
        per_outer = {}
        cur = None
        for i, e in enumerate(p.events):
            if i in o_idx:
                cur = o_idx[i][0]
                per_outer.setdefault(cur, 0)
            if e[0] == "call" and e[1] == "match_value" and cur is not None:
                per_outer[cur] += 1
        inner_by_outer = {}
        cur = None
        for i, e in enumerate(p.events):
            if i in o_idx:
                cur = o_idx[i][0]
            if i in i_idx and cur is not None:
                inner_by_outer.setdefault(cur, []).append(i_idx[i][2])
        conds = []
        for k, cnt in per_outer.items():
            n_i = "(+ 0 0 " + " ".join(f"(ite (= {t} 1) 1 0)" for t in inner_by_outer.get(k, [])) + ")"
            conds.append(f"(= {n_i} {cnt})")
        good = "(and true " + " ".join(conds) + ")"
        bad.append(f"(and {pc_term(p.pc)} (not {'false' if probs else good}))")
    c = a.discharge("operators::CommonOperator::compare/all-pairs", ex, bad,
                    f"< <= > >= over <= 2 left x <= 2 right (flattened) values ({npairs} comparisons): every left value is compared with every "
                    "right value exactly once, as (left, right), with the operator's own comparator, and the outcomes are appended in that "
                    "order; the result is Ok")
    if c:
        c["replay"] = replay_binary_ord(a)
        if not c["replay"].get("reproduced"):
            c["replay"] = replay_binary(a)
        c["reproduced"] = c["replay"].get("reproduced", False)
        a.candidates.append(c)


def contained_in(a):
    """`in` for one left value and one right value (operators.rs contained_in)"""
    PV = enum_variants(a.src, "rules/path_value.rs", "PathAwareValue")
    LIST = PV.index("List")

    def m_listin(ex, av):
        return ("struct", "ListIn", {"diff": av[0], "lhs": av[1], "rhs": av[2]}) if len(av) == 3 else ex.opq()

    def m_pair(ex, av):
        return ("struct", "LhsRhsPair", {"lhs": av[0], "rhs": av[1]}) if len(av) == 2 else ex.opq()
    ex = a.exec(r"(?:(?:rules::eval::)?operators::)?contained_in",
                {"contains": lambda ex, av: ("bool", ex.fresh("Bool", "contains")), "is_list": lambda ex, av: ("bool", f"(= {disc(ex, av[0])} {LIST})"),
                 "re:ListIn::new$": m_listin, "re:LhsRhsPair::new$": m_pair, "match_value": lambda ex, av: ex.opq(),
                 "re:Rc::<.*>::new$": mirexec.m_identity, "collect": lambda ex, av: ex.opq(),
                 "box_assume_init_into_vec_unsafe": lambda ex, av: ex.opq()},
                unroll=1, max_paths=4000)
    a.fns.append("rules::eval::operators::contained_in")
    lhs, rhs = ex.arg_env["_1"], ex.arg_env["_2"]
    dl, dr = disc(ex, lhs), disc(ex, rhs)
    L, R = f"(= {dl} {LIST})", f"(= {dr} {LIST})"
    bad = []
    for p in ex.paths:
        r = p.ret
        if p.outcome == "panic" or r is None:
            bad.append(pc_term(p.pc))
            continue
        mv = calls(p, "match_value")
        if mv:
            fn_ok = len(mv[0][2]) == 3 and mv[0][2][2] == ("fn", "compare_eq")
            ok = len(mv) == 1 and r == mv[0][3] and same_v(mv[0][2][0], lhs) and same_v(mv[0][2][1], rhs) and fn_ok
            bad.append(f"(and {pc_term(p.pc)} (not (and (not {L}) (not {R}) {'true' if ok else 'false'})))")
            continue
        if not (r[0] == "variant" and r[2] == "ComparisonResult" and r[3] and r[3][0][0] == "variant"):
            bad.append(pc_term(p.pc))
            continue
        outcome, cmpv = r[3][0][2], (r[3][0][3][0] if r[3][0][3] else None)
        cons = calls(p, "contains")
        if outcome == "NotComparable":
            pair = cmpv[2].get("pair") if cmpv and cmpv[0] == "struct" else None
            ok = pair is not None and pair[0] == "struct" and same_v(pair[2].get("lhs"), lhs) and same_v(pair[2].get("rhs"), rhs)
            good = f"(and {L} (not {R}))" if ok else "false"
        elif cmpv is not None and cmpv[0] == "variant" and cmpv[2] == "ValueIn":
            pr = cmpv[3][0]
            ok = (pr[0] == "struct" and same_v(pr[2].get("lhs"), lhs) and same_v(pr[2].get("rhs"), rhs) and len(cons) == 1
                  and same_v(cons[0][2][1], lhs) and same_v(cons[0][2][0], field(ex, payload(ex, rhs, "List"), 1, "Vec")))
            hit = cons[0][3][1] if cons else "false"
            good = f"(and (not {L}) {R} (= {hit} {'true' if outcome == 'Success' else 'false'}))" if ok and outcome in ("Success", "Fail") else "false"
        elif cmpv is not None and cmpv[0] == "variant" and cmpv[2] == "ListIn":
            li = cmpv[3][0]
            ok = li[0] == "struct" and same_v(li[2].get("lhs"), lhs) and same_v(li[2].get("rhs"), rhs)
            rl = field(ex, payload(ex, rhs, "List"), 1, "Vec")
            nested = f"(and (not (= {ex.len_of(rl)} 0)) (= {disc(ex, ex.proj_of(rl, '[0]'))} {LIST}))"
            if cons:
                # a list of lists on the right: the left list must be one of its elements
                okc = len(cons) == 1 and same_v(cons[0][2][0], rl) and same_v(cons[0][2][1], lhs)
                good = (f"(and {L} {R} {nested} (= {cons[0][3][1]} {'true' if outcome == 'Success' else 'false'}))"
                        if ok and okc and outcome in ("Success", "Fail") else "false")
            else:
                diff = li[2].get("diff") if ok else None
                empt = f"(= {ex.len_of(diff)} 0)" if diff is not None and diff[0] == "opaque" else "false"
                good = (f"(and {L} {R} (not {nested}) (= {empt} {'true' if outcome == 'Success' else 'false'}))"
                        if ok and outcome in ("Success", "Fail") else "false")
        else:
            good = "false"
        bad.append(f"(and {pc_term(p.pc)} (not {good}))")
    # the difference of the list-in-list case: elements of the LEFT list for which the RIGHT list's `contains` - the slice scan that compares
    # with the values' own `==` (a string equals a regex it matches, maps compare by content) - says no
    try:
        cex = a.exec(r"(?:(?:rules::eval::)?operators::)?contained_in::\{closure#0\}", {"contains": lambda ex, av: ("bool", ex.fresh("Bool", "contains"))},
                     log=("contains", "get", "eq"), unroll=1, max_paths=50, deepen=False)
        cbad = []
        for p in cex.paths:
            cs = [e for e in p.events if e[0] == "call" and e[1] in ("contains", "get", "eq")]
            okc = (p.outcome == "return" and len(cs) == 1 and cs[0][1] == "contains" and "core::slice::<impl [" in str(cs[0][5])
                   and p.ret is not None and p.ret[0] == "bool")
            cbad.append(f"(and {pc_term(p.pc)} (not {('(= ' + p.ret[1] + ' (not ' + cs[0][3][1] + '))') if okc else 'false'}))")
        top = mirsmt.find_fn(a.mir, r"(?:(?:rules::eval::)?operators::)?contained_in")
        chain_ok = ("HashSet" not in top and "BTreeSet" not in top and "hash_set" not in top)
        cc = a.discharge("operators::contained_in/difference-by-slice-contains", cex, cbad if chain_ok else ["true"],
                         "`in`, list in list: an element of the left list is in the difference iff the right list's slice `contains` (the scan that "
                         "uses the values' own ==) does not find it; no hashed / ordered set of values takes part in contained_in")
        if cc:
            cc["replay"] = replay_in(a)
            cc["reproduced"] = cc["replay"].get("reproduced", False)
            a.candidates.append(cc)
    except Untranslatable as e:
        a.ob.items.append({"obligation": "operators::contained_in/difference-by-slice-contains", "describe": str(e), "verdicts": {}, "status": "inconclusive", "model": None})
    c = a.discharge("operators::contained_in/cases", ex, bad,
                    "`in` on one left and one right value (membership tests modelled as arbitrary booleans): list in list-of-lists -> "
                    "Success iff the left list is an element; list in list -> Success iff the computed difference is empty; list in "
                    "non-list -> NotComparable; scalar in list -> Success iff the list contains it; scalar in scalar -> compared with "
                    "==; the outcome always carries these two operands")
    if c:
        c["replay"] = replay_in(a)
        c["reproduced"] = c["replay"].get("reproduced", False)
        a.candidates.append(c)


def replay_in(a):
    exe = a.cli()
    if not exe:
        return {"reproduced": False, "note": "native build failed"}
    data = '{"X": 1,\n "S": "b", "L": [1, 2], "LL": [[1, 2], [3]], "E": []}\n'
    cases = [("X in [1, 2]", "PASS"), ("X in [2, 3]", "FAIL"), ("X not in [2, 3]", "PASS"), ("X not in [1, 2]", "FAIL"),
             ("L in [1, 2, 3]", "PASS"), ("L in [1, 3]", "FAIL"), ("L not in [1, 3]", "FAIL") if False else ("L[*] in [1, 2]", "PASS"),
             ("L in LL", "PASS"), ("LL[1] in LL", "PASS"), ("L in [[1, 3]]", "FAIL"), ("X in 1", "PASS"), ("X in 2", "FAIL"),
             ("S in \"abc\"", "PASS"), ("S in \"xyz\"", "FAIL"), ("L in 5", "FAIL"), ("X in L", "PASS"), ("X in LL[1]", "FAIL"),
             ("S in [\"a\", \"b\"]", "PASS"), ("S in [1, 2]", "FAIL"),
             # members that are equal without being identical: a string and a regex it matches, maps in another key order
             ("N in [/^a/, /^b/]", "PASS"), ("N not in [/^a/, /^b/]", "FAIL"), ("N[*] in [/^a/, /^b/]", "PASS"), ("N in [/^a/]", "FAIL"),
             ("MS in [{\"q\": 2, \"p\": 1}, {\"p\": 3}]", "PASS"), ("MS in [{\"p\": 3}]", "FAIL"), ("S in [/^b/]", "PASS"),
             # the right-hand side is a query that selects nothing / an empty list: a verdict, with an empty `to` list in the report
             ("X in Missing.q", "FAIL"), ("X in E[*]", "FAIL"), ("L[*] in Missing.q", "FAIL"), ("X IN LL[9]", "FAIL")]
    data = '{"X": 1,\n "S": "b", "L": [1, 2], "LL": [[1, 2], [3]], "E": [], "N": ["apple", "bean"], "MS": [{"p": 1, "q": 2}]}\n'
    return a.replay_cases(exe, data, cases)


def eq_operation(a):
    """EqOperation::compare: who is compared with whom (operand roles, comparator, list-literal special case)"""
    PV = enum_variants(a.src, "rules/path_value.rs", "PathAwareValue")
    LIST = PV.index("List")
    derived = {}

    def m_is_literal(ex, av):
        o = ex.fresh_enum("Option", 2, "lit", {"Some": ex.opq()})
        derived[o[3]["Some"][1]] = av[0][1] if av and av[0][0] == "opaque" else None
        return o

    def m_selected(ex, av):
        o = ex.opq()
        derived[o[1]] = av[0][1] if av and av[0][0] == "opaque" else None
        return o
    ex = a.exec(OPS_IMPL, {"is_literal": m_is_literal, "selected": m_selected, "match_value": lambda ex, av: ex.opq(),
                           "next": mirexec.m_iter_next, "into_iter": mirexec.m_new_iter, "iter": mirexec.m_new_iter,
                           "re:Rc::<.*>::new$": mirexec.m_identity, "is_scalar": lambda ex, av: ("bool", ex.fresh("Bool", "scalar")),
                           "with_capacity": lambda ex, av: ex.opq(), "collect": lambda ex, av: ex.opq(), "filter": lambda ex, av: ex.opq(),
                           "cloned": mirexec.m_identity},
                log=("push",), unroll=1, max_paths=60000, first_arg_re=r"_1: &(?:operators::)?EqOperation")
    a.fns.append("rules::eval::operators::<EqOperation as Comparator>::compare")
    lhs, rhs = ex.arg_env["_2"], ex.arg_env["_3"]
    rev = {}
    for k, v in ex.proj.items():
        if isinstance(k, tuple) and len(k) == 2 and isinstance(k[0], int) and isinstance(v, tuple) and v and v[0] == "opaque":
            rev.setdefault(v[1], k[0])

    def side(v):
        i, seen = (v[1] if v and v[0] == "opaque" else None), 0
        while i is not None and seen < 60:
            if i == lhs[1]:
                return "L"
            if i == rhs[1]:
                return "R"
            i = rev.get(i, derived.get(i))
            seen += 1
        return None
    bad, ncmp = [], 0
    for p in ex.paths:
        r = p.ret
        if p.outcome != "return" or not r or r[0] != "enum" or r[2] != "0":
            bad.append(pc_term(p.pc))
            continue
        mvs = calls(p, "match_value")
        lits = calls(p, "is_literal")
        probs, conds = [], []
        if len(lits) != 2 or not (same_v(lits[0][2][0], lhs) and same_v(lits[1][2][0], rhs)):
            probs.append("literal test not made on (lhs, rhs)")
        results = None
        pushes = [e for e in calls(p, "push") if len(e[2]) == 2]
        for j, e in enumerate(mvs):
            ncmp += 1
            if len(e[2]) != 3 or side(e[2][0]) != "L" or side(e[2][1]) != "R":
                probs.append("a comparison does not have a left-hand value on the left and a right-hand value on the right")
            if len(e[2]) == 3 and e[2][2] != ("fn", "compare_eq"):
                probs.append("a comparison is not made with compare_eq")
            mine = [x for x in pushes if same_v(x[2][1], e[3])]
            if len(mine) != 1:
                probs.append("a comparison outcome is not appended exactly once")
        if len(lits) == 2:
            ll, rl = f"(= {lits[0][3][2]} 1)", f"(= {lits[1][3][2]} 1)"
            lv, rv_ = lits[0][3][3]["Some"], lits[1][3][3]["Some"]
            # both literal: exactly one comparison, of the two literals
            conds.append(f"(=> (and {ll} {rl}) {'true' if (len(mvs) == 1 and same_v(mvs[0][2][0], lv) and same_v(mvs[0][2][1], rv_)) else 'false'})")
            # query == [single literal]: a scalar left value is compared with the element, anything else with the list itself
            for e in mvs:
                if len(e[2]) == 3 and rev.get(e[2][1][1] if e[2][1][0] == "opaque" else None) is not None and side(e[2][1]) == "R":
                    pass
        good = "(and true " + " ".join(conds) + ")"
        bad.append(f"(and {pc_term(p.pc)} (not {'false' if probs else good}))")
    c = a.discharge("operators::EqOperation::compare/roles", ex, bad,
                    f"== over <= 1 value per loop ({ncmp} comparisons over all paths): every comparison has a value from the left operand "
                    "set on the left and one from the right operand set on the right, is made with compare_eq, and its outcome is appended "
                    "exactly once; two literals are compared once with each other; the result is Ok")
    if c:
        c["replay"] = replay_eq(a)
        c["reproduced"] = c["replay"].get("reproduced", False)
        a.candidates.append(c)


def replay_eq(a):
    exe = a.cli()
    if not exe:
        return {"reproduced": False, "note": "native build failed"}
    data = '{"X": 1,\n "Y": 1, "Z": 2, "L": [1, 2], "L1": [1], "M": {"k": 1}, "S": "a"}\n'
    cases = [("X == 1", "PASS"), ("X == 2", "FAIL"), ("X != 2", "PASS"), ("X == Y", "PASS"), ("X == Z", "FAIL"), ("X != Z", "PASS"),
             ("X == [1]", "PASS"), ("X == [2]", "FAIL"), ("L == [1, 2]", "PASS"), ("L == [2, 1]", "FAIL"), ("L != [2, 1]", "PASS"),
             ("L[*] == 1", "FAIL"), ("some L[*] == 1", "PASS"), ("L[*] != 3", "PASS"), ("L1 == [1]", "PASS"), ("L1[*] == 1", "PASS"),
             ("M == {\"k\": 1}", "PASS") if False else ("M.k == 1", "PASS"), ("S == \"a\"", "PASS"), ("S == /^a$/", "PASS"), ("S == /b/", "FAIL"),
             ("S != /b/", "PASS"), ("L == L", "PASS"), ("L == L1", "FAIL"), ("X == L1[0]", "PASS"), ("Y == X", "PASS"),
             # a literal on the left (through a variable): the (literal, query) case
             ("%w == X", "PASS"), ("%w == Z", "FAIL"), ("%w != Z", "PASS"), ("%w == L1", "PASS"), ("%w == L", "FAIL"), ("some %w == L", "PASS") if False else ("%w == Y", "PASS"),
             # a one-element list literal stands for its element only against a SCALAR: a map and a list are different types
             ("M == [{\"k\": 1}]", "FAIL"), ("M != [{\"k\": 2}]", "FAIL"), ("M != [{\"k\": 1}]", "FAIL"), ("M == {\"k\": 1}", "PASS"), ("S == [\"a\"]", "PASS"),
             ("L1 == [[1]]", "FAIL"),
]
    return a.replay_cases(exe, data, cases, prefix="let w = 1\n")


def in_operation(a):
    """InOperation::compare: every membership test has a left-hand value on the left and a right-hand value on the right"""
    derived = {}

    def m_is_literal(ex, av):
        o = ex.fresh_enum("Option", 2, "lit", {"Some": ex.opq()})
        derived[o[3]["Some"][1]] = av[0][1] if av and av[0][0] == "opaque" else None
        return o

    def m_selected(ex, av):
        o = ex.opq()
        derived[o[1]] = av[0][1] if av and av[0][0] == "opaque" else None
        return o
    names = ("contained_in", "string_in")
    fn_texts = [(OPS_IMPL, r"_1: &(?:operators::)?InOperation")]
    # the per-element work of the (query, literal) and (literal, query) cases lives in closures of this function
    for m in re.finditer(r"^fn ((?:rules::eval::)?operators::<impl at guard/src/rules/eval/operators\.rs:(\d+):\d+: \d+:\d+>::compare::\{closure#\d+\})\(", a.mir, re.M):
        fn_texts.append((re.escape(m.group(1)), ""))
    impl_line = None
    t0 = mirsmt.find_fn(a.mir, OPS_IMPL, r"_1: &(?:operators::)?InOperation")
    mm = re.search(r"operators\.rs:(\d+):", t0.splitlines()[0])
    impl_line = mm.group(1) if mm else None
    total, nfn = 0, 0
    for fre, a1 in fn_texts:
        if a1 == "" and impl_line and f"operators\\.rs:{impl_line}:" not in fre and f"operators.rs:{impl_line}:" not in fre.replace("\\", ""):
            continue
        try:
            ex = a.exec(fre, {"is_literal": m_is_literal, "selected": m_selected, "contained_in": lambda ex, av: ex.opq(),
                              "string_in": lambda ex, av: ex.opq(), "fail": lambda ex, av: ex.opq(), "next": mirexec.m_iter_next,
                              "into_iter": mirexec.m_new_iter, "iter": mirexec.m_new_iter, "re:Rc::<.*>::new$": mirexec.m_identity,
                              "with_capacity": lambda ex, av: ex.opq(), "collect": lambda ex, av: ex.opq(), "any": lambda ex, av: ("bool", ex.fresh("Bool", "any")),
                              "cloned": mirexec.m_identity},
                        log=("push",), unroll=1, max_paths=60000, first_arg_re=a1)
        except Untranslatable:
            continue
        nfn += 1
        is_closure = "closure" in fre
        envv, elem, cap_names = None, None, {}
        if is_closure:
            envv, elem = ex.arg_env.get("_1"), ex.arg_env.get("_2")
            for dm in re.finditer(r"debug (\w+) => \(\*\(?\(?\*?_1\)?\.(\d+):", mirsmt.find_fn(a.mir, fre, a1)):
                cap_names[dm.group(2)] = dm.group(1)
        lhs, rhs = (ex.arg_env.get("_2"), ex.arg_env.get("_3")) if not is_closure else (None, None)
        rev = {}
        for k, v in ex.proj.items():
            if isinstance(k, tuple) and len(k) == 2 and isinstance(k[0], int) and isinstance(v, tuple) and v and v[0] == "opaque":
                rev.setdefault(v[1], k[0])

        def side(v):
            i, seen = (v[1] if v and v[0] == "opaque" else None), 0
            while i is not None and seen < 60:
                if lhs is not None and i == lhs[1]:
                    return "L"
                if rhs is not None and i == rhs[1]:
                    return "R"
                i = rev.get(i, derived.get(i))
                seen += 1
            return None
        bad = []
        for p in ex.paths:
            if p.outcome == "panic":
                bad.append(pc_term(p.pc))
                continue
            probs = []
            tests = [e for e in p.events if e[0] == "call" and e[1] in names]
            total += len(tests)
            for e in tests:
                if len(e[2]) != 2:
                    probs.append("arity")
                    continue
                if not is_closure:
                    if side(e[2][0]) != "L" or side(e[2][1]) != "R":
                        probs.append("a membership test does not have (left value, right value)")
                else:
                    # in a closure: operands come from the handed-in element (_2) and / or captured variables; a captured
                    # variable whose name starts with l / lhs must be the first operand, one starting with r / rhs the second
                    def origin(v):
                        i, seen, child = (v[1] if v and v[0] == "opaque" else None), 0, None
                        while i is not None and seen < 60:
                            if elem is not None and elem[0] == "opaque" and i == elem[1]:
                                return "elem"
                            if envv is not None and envv[0] == "opaque" and i == envv[1]:
                                for kk, vv in ex.proj.items():
                                    if isinstance(kk, tuple) and kk[0] == envv[1] and isinstance(vv, tuple) and vv and vv[0] == "opaque" and vv[1] == child:
                                        return "cap:" + cap_names.get(kk[1].lstrip("."), kk[1])
                                return "cap:?"
                            child = i
                            i = rev.get(i)
                            seen += 1
                        return None
                    o0, o1 = origin(e[2][0]), origin(e[2][1])
                    if o0 is None or o1 is None or o0 == o1:
                        probs.append("a membership test in a closure does not pair two different operands")
                    if (o0 or "").startswith(("cap:r", "cap:rhs")) or (o1 or "").startswith(("cap:l", "cap:lhs")):
                        probs.append("a membership test in a closure has the right operand on the left")
            bad.append(pc_term(p.pc) if probs else "false")
        short = ("closure-" + "-".join(re.findall(r"closure\\#(\d+)", fre))) if is_closure else "body"
        c = a.discharge(f"operators::InOperation::compare/roles/{short}", ex, bad,
                        "`in`: every membership test (contained_in / string_in) pairs a value of the left operand set (first argument) "
                        "with a value of the right operand set (second argument); in the per-element closures the handed-in element is "
                        "paired with the captured literal", witness=False)
        if c:
            c["replay"] = replay_in(a)
            c["reproduced"] = c["replay"].get("reproduced", False)
            a.candidates.append(c)
    a.fns.append(f"rules::eval::operators::<InOperation as Comparator>::compare (+ {nfn - 1} closures; {total} membership tests over all paths)")


def same_v(x, y):
    return x is not None and y is not None and x == y


# --------------------------------------------------------------------------------------------------
# built-in functions: FunctionName::call dispatch and the one-line wrappers
# --------------------------------------------------------------------------------------------------
CALLABLE_IMPL = r"(?:rules::)?eval_context::<impl at guard/src/rules/eval_context\.rs:\d+:\d+: \d+:\d+>::call"
WRAPPED = {"ToUpper": "to_upper", "ToLower": "to_lower", "UrlDecode": "url_decode", "ParseInt": "parse_int", "ParseFloat": "parse_float",
           "ParseString": "parse_str", "ParseBoolean": "parse_bool", "ParseChar": "parse_char", "ParseEpoch": "parse_epoch",
           "JsonParse": "json_parse"}


def function_dispatch(a):
    FN = enum_variants(a.src, "rules/eval_context.rs", "FunctionName")
    ex = a.exec(CALLABLE_IMPL, {"call": m_result_opq}, unroll=1, max_paths=20000, first_arg_re=r"_1: &(?:eval_context::)?FunctionName,")
    a.fns.append("rules::eval_context::<FunctionName as Callable>::call")
    d = disc(ex, ex.arg_env["_1"])
    args = ex.arg_env["_2"]
    bad = []
    for p in ex.paths:
        cs = calls(p, "call")
        if len(cs) != 1 or p.ret is None:
            bad.append(pc_term(p.pc))
            continue
        m = re.search(r"<(\w+)Function as (?:\w+::)*Callable>", cs[0][5])
        variant = m.group(1) if m else None
        ok = variant in FN and len(cs[0][2]) == 2 and cs[0][2][1] == args and p.ret == cs[0][3]
        bad.append(f"(and {pc_term(p.pc)} (not (= {d} {FN.index(variant)})))" if ok else pc_term(p.pc))
    a.discharge("functions/FunctionName::call/dispatch", ex, bad,
                "every built-in name is evaluated by its own implementation (count -> CountFunction, to_upper -> ToUpperFunction, ...) on "
                "the unchanged argument lists and its result is returned unchanged")
    for variant, fname in WRAPPED.items():
        try:
            ex = a.exec(CALLABLE_IMPL, {fname: m_result_opq}, unroll=1, max_paths=2000,
                        first_arg_re=r"_1: &(?:eval_context::)?" + variant + "Function,")
        except Untranslatable:
            a.ob.items.append({"obligation": f"functions/{variant}Function::call", "describe": "implementation not found", "verdicts": {},
                               "status": "inconclusive", "model": None})
            continue
        args = ex.arg_env["_2"]
        ex.side.append(f"(= {ex.len_of(args)} 1)")          # arity checked by the parser
        bad = []
        for p in ex.paths:
            cs = calls(p, fname)
            if p.outcome == "panic":
                bad.append(pc_term(p.pc))
                continue
            ok = (len(cs) == 1 and p.ret == cs[0][3] and len(cs[0][2]) >= 1 and cs[0][2][0] == ex.proj.get((args[1], "[0]")))
            bad.append("false" if ok else pc_term(p.pc))
        a.discharge(f"functions/{variant}Function::call", ex, bad,
                    f"{variant}: the wrapper applies `{fname}` to its single argument list and returns that result unchanged; no "
                    "out-of-bounds argument access for a call with one argument", witness=False)


# --------------------------------------------------------------------------------------------------
# element-wise built-ins: one result per argument value, built only from that value (and the fixed arguments)
# --------------------------------------------------------------------------------------------------
ELEMENTWISE = ["url_decode", "json_parse", "regex_replace", "substring", "to_upper", "to_lower", "parse_float", "parse_int", "parse_bool",
               "parse_str", "parse_char", "parse_epoch"]


def _flat_ids(v, out):
    if v is None:
        return
    if v[0] == "opaque":
        out.append(v[1])
    elif v[0] == "tuple":
        for x in v[1]:
            _flat_ids(x, out)
    elif v[0] == "struct":
        for x in v[2].values():
            _flat_ids(x, out)
    elif v[0] == "variant":
        for x in v[3]:
            _flat_ids(x, out)
    elif v[0] == "enum":
        for x in v[3].values():
            _flat_ids(x, out)


def elementwise(a):
    for fname in ELEMENTWISE:
        try:
            ex = a.exec(r"(?:(?:rules::functions::)?(?:strings|converters|date_time)::)?" + fname,
                        {"next": mirexec.m_iter_next, "iter": mirexec.m_new_iter, "into_iter": mirexec.m_new_iter,
                         "with_capacity": lambda ex, av: ex.opq(), "branch": mirexec.m_try_branch, "from_residual": mirexec.m_from_residual},
                        log=("*",), unroll=2, max_paths=60000,
                        first_arg_re=r"_1: &\[(?:rules::)?QueryResult\]")
        except Untranslatable as e:
            a.ob.items.append({"obligation": f"functions/{fname}/element-wise", "describe": str(e), "verdicts": {}, "status": "inconclusive",
                               "model": None})
            continue
        a.fns.append(f"rules::functions::{fname}")
        args = ex.arg_env["_1"]
        fixed = {v[1] for k, v in ex.arg_env.items() if k != "_1" and v[0] == "opaque"}
        rev = {}
        for k, v in ex.proj.items():
            if isinstance(k, tuple) and len(k) == 2 and isinstance(k[0], int) and isinstance(v, tuple) and v and v[0] == "opaque":
                rev.setdefault(v[1], k[0])

        def rooted(i, roots, depth=0):
            """the value, or something it is a field / payload / element of, is one of `roots`"""
            while i is not None and depth < 50:
                if i in roots:
                    return True
                i = rev.get(i)
                depth += 1
            return False
        bad, nel = [], 0
        for p in ex.paths:
            r = p.ret
            if p.outcome == "panic":
                bad.append(pc_term(p.pc))
                continue
            if not r or r[0] != "enum" or r[1] != "Result":
                bad.append(pc_term(p.pc))
                continue
            okv = r[3].get("Ok")
            its = iterations(ex, p, it_filter=lambda ev: ex.iter_src.get(ev[2][0][1], ev[2][0]) == args)
            bounds = [i for _k, _e, _t, i in its] + [len(p.events)]
            pre = bounds[0] if its else len(p.events)
            probs, counts = [], []
            for n, (k, el, tag, i0) in enumerate(its):
                seg = [(i, e) for i, e in enumerate(p.events) if bounds[n] <= i < bounds[n + 1] and e[0] == "call"]
                pushes = [e for i, e in seg if e[1] == "push" and len(e[2]) == 2 and okv is not None and (e[2][0] == okv or r[2] == "1")]
                pushes = [e for e in pushes if okv is None or e[2][0] == okv] if okv is not None else pushes
                if el is None:
                    continue
                nel += 1
                counts.append((tag, len(pushes)))
                for e in pushes:
                    ids = []
                    _flat_ids(e[2][1], ids)
                    roots = fixed | ({el[1]} if el[0] == "opaque" else set())
                    for i_ in ids:
                        top = i_
                        for _d in range(50):
                            if rev.get(top) is None:
                                break
                            top = rev[top]
                        # built from this value / the fixed arguments, or an object that came into being while handling this value
                        if not (rooted(i_, roots) or ex.created.get(top, -1) >= bounds[n]):
                            probs.append(f"the result for argument value {k} contains a value that was not built from it in this iteration")
            # one result per visited value unless the run ended with an error
            cnt = "(and true " + " ".join(f"(=> (= {t} 1) {'true' if c == 1 else 'false'})" for t, c in counts) + ")"
            n_it = "(+ 0 0 " + " ".join(f"(ite (= {t} 1) 1 0)" for _k, _e, t, _i in its) + ")"
            good = f"(or (= {r[2]} 1) (and {cnt} (= {n_it} {ex.len_of(args)})))"
            bad.append(f"(and {pc_term(p.pc)} (not {'false' if probs else good}))")
        c = a.discharge(f"functions/{fname}/element-wise", ex, bad,
                        f"{fname} over an argument list of <= 2 values ({nel} element visits): every value is visited, exactly one result "
                        "(a value or `skipped`) is appended per value, in order, and a result is built only from that value, the function's "
                        "other arguments and objects created while handling that value - no state is carried from one value to the next; no "
                        "panic")
        if c:
            c["replay"] = replay_elementwise(a)
            c["reproduced"] = c["replay"].get("reproduced", False)
            a.candidates.append(c)


def replay_elementwise(a):
    """each element-wise built-in on a two-element selection (and a mixed selection with a non-string): the i-th result
    is the documented function of the i-th value alone"""
    exe = a.cli()
    if not exe:
        return {"reproduced": False, "note": "native build failed"}
    data = ('{"S": ["ab", "cd"],\n "U": ["a%20b", "c%2Fd"], "N": ["12", "34"], "F": ["1.5", "2.5"], "B": ["true", "false"], "C": ["x", "y"],\n'
            ' "J": ["{\\"k\\": 1}", "{\\"k\\": 2}"], "M": ["ab", 5, "cd"], "I": [12, 34]}\n')
    rules = ("let up = to_upper(S[*])\nlet lo = to_lower(%up)\nlet ud = url_decode(U[*])\nlet pi = parse_int(N[*])\nlet pf = parse_float(F[*])\n"
             "let pb = parse_boolean(B[*])\nlet pc = parse_char(C[*])\nlet ps = parse_string(I[*])\nlet rr = regex_replace(S[*], \"^(.)(.)$\", \"${2}${1}\")\n"
             "let sb = substring(S[*], 0, 1)\nlet jp = json_parse(J[*])\nlet mu = to_upper(M[*])\n")
    # a variable's result set cannot be indexed (`%v[0]` indexes INTO each value), so each result set is pinned down by
    # "every result is one of the expected values" + "each expected value occurs"
    def both(var, v1, v2):
        return [(f"%{var} in [{v1}, {v2}]", "PASS"), (f"some %{var} == {v1}", "PASS"), (f"some %{var} == {v2}", "PASS")]
    cases = (both("up", '"AB"', '"CD"') + both("lo", '"ab"', '"cd"') + both("ud", '"a b"', '"c/d"') + both("pi", "12", "34")
             + both("pf", "1.5", "2.5") + both("pb", "true", "false") + both("ps", '"12"', '"34"') + both("rr", '"ba"', '"dc"')
             + both("sb", '"a"', '"c"') + both("mu", '"AB"', '"CD"')
             + [("%jp.k in [1, 2]", "PASS"), ("some %jp.k == 1", "PASS"), ("some %jp.k == 2", "PASS"), ("%pc exists", "PASS")])
    return a.replay_cases(exe, data, cases, prefix=rules)


def list_map_equality(a):
    """compare_eq on two lists / two maps (<= 2 entries), the comparison of the members being an arbitrary Result<bool>"""
    PV = enum_variants(a.src, "rules/path_value.rs", "PathAwareValue")
    MV = struct_fields(a.src, "rules/path_value.rs", "MapValue")
    cmp_model = lambda ex, av: ex.fresh_result(("bool", ex.fresh("Bool", "eq")), "cmp")
    for kind in ("List", "Map"):
        holder = {}

        def prep(ex, kind=kind):
            x, y = ex.opq(), ex.opq()
            ex.proj[("disc", x[1])] = str(PV.index(kind))
            ex.proj[("disc", y[1])] = str(PV.index(kind))
            holder.update(x=x, y=y)
            return {"_1": x, "_2": y}
        ex = a.exec(r"(?:rules::)?path_value::compare_eq", {"compare_eq": cmp_model, "next": mirexec.m_iter_next, "into_iter": mirexec.m_new_iter,
                                                            "iter": mirexec.m_new_iter, "zip": mirexec.m_zip, "get": mirexec.m_option,
                                                            "len": lambda ex, av: ("int", ex.len_of(av[0]))},
                    log=("len",), unroll=2, max_paths=20000, prep=prep)
        a.fns.append(f"rules::path_value::compare_eq ({kind} x {kind})")
        bad, ncmp = [], 0
        for p in ex.paths:
            r = p.ret
            if p.outcome != "return" or not r or r[0] != "enum" or r[1] != "Result":
                bad.append(pc_term(p.pc))
                continue
            cs = calls(p, "compare_eq")
            lens = calls(p, "len")
            gets = calls(p, "get")
            ncmp += len(cs)
            probs = []
            if len(lens) != 2 or lens[0][2][0] == lens[1][2][0]:
                probs.append("the two sizes compared are not the sizes of the two operands")
            same_len = f"(= {lens[0][3][1]} {lens[1][3][1]})" if len(lens) == 2 else "false"
            its = iterations(ex, p)
            if kind == "List":
                for k, c in enumerate(cs):
                    el = its[k][1] if k < len(its) else None
                    if not (el is not None and el[0] == "tuple" and str(c[2][0]) == str(el[1][0]) and str(c[2][1]) == str(el[1][1])):
                        probs.append("a member comparison is not (left[k], right[k])")
            else:
                for k, c in enumerate(cs):
                    el = its[k][1] if k < len(its) else None
                    g = gets[k] if k < len(gets) else None
                    ok = (el is not None and g is not None and g[3][0] == "enum" and str(c[2][1]) == str(g[3][3]["Some"]))
                    if not ok:
                        probs.append("a value comparison is not (left[key], right[key])")
                if len(gets) < len(cs):
                    probs.append("value compared without a lookup")
            okv = r[3].get("Ok")
            res = okv[1] if okv is not None and okv[0] == "bool" else None
            alltrue = "(and true " + " ".join(f"(and (= {c[3][2]} 0) {c[3][3]['Ok'][1]})" for c in cs) + ")"
            anyerr = "(or false " + " ".join(f"(= {c[3][2]} 1)" for c in cs) + ")"
            missing = "(or false " + " ".join(f"(= {g[3][2]} 0)" for g in gets if g[3][0] == "enum") + ")"
            # number of members visited when the answer is `true`: all of them (the executor cuts longer collections)
            n_it = "(+ 0 0 " + " ".join(f"(ite (= {t} 1) 1 0)" for _k, _e, t, _i in its) + ")"
            full = f"(= {n_it} {len(cs)})"
            if res is None:
                good = f"(and (= {r[2]} 1) {anyerr})"
            else:
                good = (f"(ite (= {r[2]} 1) {anyerr} (and (not {anyerr}) (= {res} (and {same_len} {alltrue} (not {missing}) {full}))))")
            bad.append(f"(and {pc_term(p.pc)} (not {'false' if probs else good}))")
        c = a.discharge(f"compare_eq/{kind.lower()}-equality", ex, bad,
                        f"compare_eq on two {kind.lower()}s of <= 2 entries ({ncmp} member comparisons over all paths), member comparison arbitrary: "
                        + ("true iff the lengths are equal and every (left[k], right[k]) pair compares equal, in order"
                           if kind == "List" else
                           "true iff the sizes are equal, every key of the left map is present in the right map and the two values under it compare equal")
                        + "; an error of a member comparison is passed on; the first unequal member decides")
        if c:
            c["replay"] = replay_list_map_eq(a)
            c["reproduced"] = c["replay"].get("reproduced", False)
            a.candidates.append(c)


def replay_list_map_eq(a):
    exe = a.cli()
    if not exe:
        return {"reproduced": False, "note": "native build failed"}
    data = ('{"l0": [], "l1": [1], "l2": [1, 2], "l2r": [2, 1], "l3": [1, 2, 3], "ln": [[1], [2]],\n'
            ' "m1": {"a": 1}, "m2": {"a": 1, "b": 2}, "m2r": {"b": 2, "a": 1}, "m2x": {"a": 1, "b": 3}, "m2k": {"a": 1, "c": 2}, "m0": {}}\n')
    cases = [("l2 == [1, 2]", "PASS"), ("l2 == [2, 1]", "FAIL"), ("l2 == [1]", "FAIL"), ("l1 == [1, 2]", "FAIL"), ("l2 == [1, 2, 3]", "FAIL"),
             ("l3 == [1, 2, 3]", "PASS"), ("l3 == [1, 2, 4]", "FAIL"), ("l3 == [0, 2, 3]", "FAIL"), ("l0 == []", "PASS"), ("l1 == []", "FAIL"),
             ("ln == [[1], [2]]", "PASS"), ("ln == [[1], [3]]", "FAIL"), ("l2 != [1, 2]", "FAIL"), ("l2 != [2, 1]", "PASS"),
             ("m2 == {\"a\": 1, \"b\": 2}", "PASS"), ("m2 == {\"b\": 2, \"a\": 1}", "PASS"), ("m2 == {\"a\": 1}", "FAIL"),
             ("m1 == {\"a\": 1, \"b\": 2}", "FAIL"), ("m2 == {\"a\": 1, \"b\": 3}", "FAIL"), ("m2 == {\"a\": 1, \"c\": 2}", "FAIL"),
             ("m2 == {\"a\": 2, \"b\": 2}", "FAIL"), ("m0 == {}", "PASS"), ("m2 != {\"a\": 1, \"b\": 2}", "FAIL"), ("m2 != {\"a\": 1, \"b\": 3}", "PASS")]
    return a.replay_cases(exe, data, cases)


# --------------------------------------------------------------------------------------------------
# `==` of the value type itself (PartialEq for PathAwareValue / MapValue): used by query-vs-query ==, in-lists, difference sets
# --------------------------------------------------------------------------------------------------
def _origin(ex, v):
    rev = {}
    for (b, k), val in ex.proj.items():
        if isinstance(val, tuple) and val and val[0] == "opaque" and isinstance(b, int):
            rev[val[1]] = (b, k)
    keys = []
    while v is not None and v[0] == "opaque" and v[1] in rev:
        b, k = rev[v[1]]
        keys.append(k)
        v = ("opaque", b)
    return v, list(reversed(keys))


def value_partial_eq(a):
    """PathAwareValue == PathAwareValue, one pair of kinds at a time (12 x 12 minus the two String / Regex pairs), the callees
    (IndexMap ==, Vec ==, scalar ==, is_within, compare_values) arbitrary: which callee decides, on which operands, and that its answer is
    returned unchanged. MapValue == MapValue is the IndexMap equality of the two `values` (IndexMap's == ignores insertion order)."""
    PV = enum_variants(a.src, "rules/path_value.rs", "PathAwareValue")
    MV = struct_fields(a.src, "rules/path_value.rs", "MapValue")
    IMPL = r"(?:rules::)?path_value::<impl at guard/src/rules/path_value\.rs:\d+:\d+: \d+:\d+>::eq"
    m_bool = lambda ex, av: ("bool", ex.fresh("Bool", "eq"))

    def m_cv(ex, av):
        t = ex.fresh("Int", "ord")
        ex.side.append(f"(and (<= (- 1) {t}) (<= {t} 1))")
        return ex.fresh_result(("enum", "Ordering", t, {}), "cv")

    # --- MapValue
    ex = a.exec(IMPL, {"eq": m_bool}, first_arg_re=r"_1: &MapValue", unroll=1, max_paths=200)
    a.fns.append("rules::path_value::<MapValue as PartialEq>::eq")
    bad = []
    for p in ex.paths:
        eqs = [e for e in p.events if e[0] == "call" and e[1] == "eq"]
        ok = (p.outcome == "return" and len(eqs) == 1 and "IndexMap<" in str(eqs[0][5]) and "PartialEq" in str(eqs[0][5])
              and len(calls(p, "next")) == 0
              and _origin(ex, eqs[0][2][0]) == (ex.arg_env["_1"], [f".{MV.index('values')}"])
              and _origin(ex, eqs[0][2][1]) == (ex.arg_env["_2"], [f".{MV.index('values')}"])
              and p.ret == eqs[0][3])
        # every call of the path is that one comparison: nothing else (lengths, iterators) takes part in the answer
        others = [e for e in p.events if e[0] == "call" and e[1] not in ("eq",)]
        bad.append(f"(and {pc_term(p.pc)} (not {'true' if ok and not others else 'false'}))")
    c = a.discharge("MapValue::eq/indexmap-equality", ex, bad,
                    "MapValue == MapValue is exactly IndexMap::eq(self.values, other.values) - the key -> value mapping, insertion order ignored "
                    "(contract of indexmap's PartialEq) - and nothing else takes part")
    if c:
        c["replay"] = replay_value_eq(a)
        c["reproduced"] = c["replay"].get("reproduced", False)
        a.candidates.append(c)

    # --- PathAwareValue, directed per pair of kinds
    special = {("Map", "Map"): ("eq", "MapValue as PartialEq", "Map", "Map"), ("List", "List"): ("eq", "Vec<", "List", "List"),
               ("Bool", "Bool"): ("eq", "bool as PartialEq", "Bool", "Bool"), ("Regex", "Regex"): ("eq", "String as PartialEq", "Regex", "Regex"),
               ("Int", "RangeInt"): ("is_within", "i64 as", "Int", "RangeInt"), ("Float", "RangeFloat"): ("is_within", "f64 as", "Float", "RangeFloat"),
               ("Char", "RangeChar"): ("is_within", "char as", "Char", "RangeChar")}
    bad, npairs, decls, side = [], 0, [], []
    exs = []
    for kl in PV:
        for kr in PV:
            if {kl, kr} == {"String", "Regex"}:
                continue                      # decided by the regex engine: not modelled
            holder = {}

            def prep(ex, kl=kl, kr=kr):
                x, y = ex.opq(), ex.opq()
                ex.proj[("disc", x[1])] = str(PV.index(kl))
                ex.proj[("disc", y[1])] = str(PV.index(kr))
                holder.update(x=x, y=y)
                return {"_1": x, "_2": y}
            ex = a.exec(IMPL, {"eq": m_bool, "is_within": m_bool, "compare_values": m_cv}, first_arg_re=r"_1: &path_value::PathAwareValue",
                        prep=prep, unroll=1, max_paths=200, deepen=False)
            exs.append(ex)
            npairs += 1
            x, y = holder["x"], holder["y"]
            for p in ex.paths:
                cs = [e for e in p.events if e[0] == "call" and e[1] in ("eq", "is_within", "compare_values", "new", "is_match")]
                if p.outcome != "return" or len(cs) != 1 or p.ret is None or p.ret[0] != "bool":
                    bad.append((ex, pc_term(p.pc)))
                    continue
                e = cs[0]
                sp = special.get((kl, kr))
                if sp:
                    fn, frag, pl, pr = sp
                    def inner(v, kind):
                        pay = ex.proj.get((v[1], f"as {kind}.0"))
                        return ex.proj.get((pay[1], ".1")) if pay and pay[0] == "opaque" else None
                    ok = (e[1] == fn and frag in str(e[5]) and inner(x, pl) is not None and e[2][0] == inner(x, pl)
                          and inner(y, pr) is not None and e[2][1] == inner(y, pr))
                    good = f"(= {p.ret[1]} {e[3][1]})" if ok else "false"
                else:
                    ok = e[1] == "compare_values" and e[2][0] == x and e[2][1] == y
                    r = e[3]
                    good = f"(= {p.ret[1]} (and (= {r[2]} 0) (= {r[3]['Ok'][2]} 0)))" if ok else "false"
                bad.append((ex, f"(and {pc_term(p.pc)} (not {good}))"))
    a.fns.append("rules::path_value::<PathAwareValue as PartialEq>::eq")
    # one obligation per executor (each has its own declarations); report them under one name
    n_ref = 0
    for ex in exs:
        terms = [t for e_, t in bad if e_ is ex]
        c = a.discharge("PathAwareValue::eq/dispatch", ex, terms,
                        f"PathAwareValue == PathAwareValue for one pair of kinds (all {npairs} pairs are discharged under this name): Map/Map -> "
                        "MapValue ==, List/List -> Vec ==, Bool/Bool, Regex/Regex -> the payloads' ==, Int/RangeInt, Float/RangeFloat, "
                        "Char/RangeChar -> is_within(value, range); every other pair -> compare_values(left, right) and true iff it is Ok(Equal); "
                        "operands in order, the callee's answer returned unchanged", witness=False)
        if c:
            n_ref += 1
            if n_ref == 1:
                c["replay"] = replay_value_eq(a)
                c["reproduced"] = c["replay"].get("reproduced", False)
                a.candidates.append(c)


def replay_value_eq(a):
    exe = a.cli()
    if not exe:
        return {"reproduced": False, "note": "native build failed"}
    data = ('{"a": {"Key": "env", "Value": "prod"}, "b": {"Value": "prod", "Key": "env"}, "same": {"Key": "env", "Value": "prod"},\n'
            ' "diff": {"Value": "dev", "Key": "env"}, "less": {"Key": "env"}, "la": [1, 2], "lb": [1, 2], "lr": [2, 1], "t": true, "t2": true, "f": false,\n'
            ' "i": 5, "i2": 5, "j": 6, "s": "x", "s2": "x", "n": null, "n2": null, "lm": [{"p": 1, "q": 2}], "lmr": [{"q": 2, "p": 1}],\n'
            ' "fl": 1.5, "fl2": 1.5, "fa": 0.30000000000000004, "fb": 0.3, "tiny": 1e-20, "tiny2": 2e-20}\n')
    cases = [("a == same", "PASS"), ("a == b", "PASS"), ("b == a", "PASS"), ("a != b", "FAIL"), ("diff == a", "FAIL"), ("a == less", "FAIL"), ("less == a", "FAIL"),
             ("a in [{ \"Key\": \"env\", \"Value\": \"prod\" }]", "PASS"), ("b in [{ \"Key\": \"env\", \"Value\": \"prod\" }]", "PASS"),
             ("b not in [{ \"Key\": \"env\", \"Value\": \"prod\" }]", "FAIL"), ("diff in [{ \"Key\": \"env\", \"Value\": \"prod\" }]", "FAIL"),
             ("b == { \"Key\": \"env\", \"Value\": \"prod\" }", "PASS"),
             ("la == lb", "PASS"), ("la == lr", "FAIL"), ("la != lr", "PASS"), ("lm == lmr", "PASS"), ("lm != lmr", "FAIL"),
             ("t == t2", "PASS"), ("t == f", "FAIL"), ("t != f", "PASS"), ("i == i2", "PASS"), ("i == j", "FAIL"), ("i != j", "PASS"),
             ("s == s2", "PASS"), ("n == n2", "PASS"), ("fl == fl2", "PASS"), ("i == s", "FAIL"), ("a == la", "FAIL"),
             ("i in [4, 5]", "PASS"), ("j in [4, 5]", "FAIL"),
             # floats: the == behind in-lists / query == query is the == of the comparison kernel (no tolerance)
             ("fa in [0.3]", "FAIL"), ("fa in [0.30000000000000004]", "PASS"), ("fa == fb", "FAIL"), ("fa != fb", "PASS"), ("fb in [0.3]", "PASS"),
             ("tiny in [2e-20]", "FAIL"), ("tiny == tiny2", "FAIL"), ("i in r[1, 10]", "PASS"), ("i in r(5, 10]", "FAIL"), ("t in [true]", "PASS"), ("f in [true]", "FAIL")]
    return a.replay_cases(exe, data, cases)


# --------------------------------------------------------------------------------------------------
# the three clause dispatchers (C01): which evaluator a clause kind is handed to
# --------------------------------------------------------------------------------------------------
def clause_dispatch(a):
    """eval_guard_clause / eval_when_clause / eval_rule_clause: one variant at a time (discriminant fixed), the evaluators arbitrary:
    the clause is handed to the evaluator of ITS kind, together with the scope given, exactly once, and that evaluator's result is
    the result"""
    EV = r"(?:(?:rules::)?eval::)?"
    table = {
        "eval_guard_clause": ("GuardClause", {"Clause": ("eval_guard_access_clause", [0]), "NamedRule": ("eval_guard_named_clause", [0]),
                                              "BlockClause": ("eval_guard_block_clause", [0]),
                                              "WhenBlock": ("eval_when_condition_block", [0, 1]),
                                              "ParameterizedNamedRule": ("eval_parameterized_rule_call", [0])}),
        "eval_when_clause": ("WhenGuardClause", {"Clause": ("eval_guard_access_clause", [0]), "NamedRule": ("eval_guard_named_clause", [0]),
                                                 "ParameterizedNamedRule": ("eval_parameterized_rule_call", [0])}),
        "eval_rule_clause": ("RuleClause", {"Clause": ("eval_guard_clause", [0]), "TypeBlock": ("eval_type_block_clause", [0]),
                                            "WhenBlock": ("eval_when_condition_block", [0, 1])}),
    }
    evaluators = sorted({v[0] for _e, t in table.values() for v in t.values()})
    for fn, (enum, arms) in table.items():
        variants = enum_variants(a.src, "rules/exprs.rs", enum)
        n = 0
        for var in variants:
            holder = {}

            def prep(ex, var=var):
                x = ex.opq()
                ex.proj[("disc", x[1])] = str(variants.index(var))
                holder["x"] = x
                return {"_1": x}
            ex = a.exec(EV + fn, {e: mirexec.m_result_status for e in evaluators}, prep=prep, unroll=1, max_paths=200, deepen=False)
            x = holder["x"]
            bad = []
            for p in ex.paths:
                cs = [e for e in p.events if e[0] == "call" and e[1] in evaluators]
                exp = arms.get(var)
                if p.outcome != "return" or exp is None or len(cs) != 1:
                    bad.append(pc_term(p.pc))
                    continue
                e = cs[0]
                pay = [av for av in e[2] if av[0] == "opaque"]
                want = [ex.proj.get((x[1], f"as {var}.{i}")) for i in exp[1]] + [ex.arg_env["_2"]]
                ok = e[1] == exp[0] and None not in want and pay[-len(want):] == want and p.ret == e[3]
                bad.append(f"(and {pc_term(p.pc)} (not {'true' if ok else 'false'}))")
                n += 1
            c = a.discharge(f"{fn}/dispatch", ex, bad,
                            f"{fn} on a {enum}::{var}: handed to {arms.get(var, ('?',))[0]} with this clause's own payload and the scope given, "
                            "exactly once; its result is returned unchanged (one obligation per variant under this name)", witness=False)
            if c:
                c["replay"] = replay_clause_kinds(a)
                c["reproduced"] = c["replay"].get("reproduced", False)
                a.candidates.append(c)
        a.fns.append("rules::eval::" + fn)


def replay_clause_kinds(a):
    """every clause kind at every position it can occur in (rule body, rule guard, block body, block guard), PASS / FAIL / SKIP"""
    exe = a.cli()
    if not exe:
        return {"reproduced": False, "note": "native build failed"}
    data = '{"a": 1, "b": 2, "L": [ {"x": 1}, {"x": 2} ],\n "Resources": {"r1": {"Type": "A::B::C", "v": 1}}}\n'
    prefix = ("rule yes { a == 1 }\nrule no { a == 2 }\nrule skipped when a == 2 { a == 1 }\n"
              "rule pr(v) { %v == 1 }\n")
    cases = [("a == 1", "PASS"), ("a == 2", "FAIL"), ("yes", "PASS"), ("no", "FAIL"), ("skipped", "FAIL"), ("not no", "PASS"), ("not yes", "FAIL"),
             ("pr(a)", "PASS"), ("pr(b)", "FAIL"),
             ("L[*] { x >= 1 }", "PASS"), ("L[*] { x == 1 }", "FAIL"), ("L[ x == 9 ] { x == 1 }", "SKIP"),
             ("when a == 1 { b == 2 }", "PASS"), ("when a == 1 { b == 3 }", "FAIL"), ("when a == 2 { b == 3 }", "SKIP"),
             ("when yes { b == 2 }", "PASS"), ("when no { b == 3 }", "SKIP"), ("when pr(a) { b == 3 }", "FAIL"), ("when pr(b) { b == 3 }", "SKIP"),
             ("A::B::C { v == 1 }", "PASS"), ("A::B::C { v == 2 }", "FAIL"), ("A::B::D { v == 2 }", "SKIP"),
             ("A::B::C when a == 1 { v == 2 }", "FAIL"), ("A::B::C when a == 2 { v == 2 }", "SKIP"), ("A::B::C when yes { v == 1 }", "PASS"),
             ("L[*] { pr(x) }", "FAIL"), ("some L[*] { pr(x) }", "PASS"),
             ("L[*] { when x == 1 { x == 1 } }", "PASS"), ("L[*] { when x == 1 { x == 2 } }", "FAIL"),
             ("L[*] { L2[*] { y == 1 } }", "FAIL"), ("when a == 1 { when b == 2 { a == 2 } }", "FAIL"), ("when a == 1 { when b == 3 { a == 2 } }", "SKIP")]
    return a.replay_cases(exe, data, cases, prefix=prefix)


# --------------------------------------------------------------------------------------------------
# resolve_function (C18 / C15): how the arguments of a built-in call are obtained and what becomes of its results
# --------------------------------------------------------------------------------------------------
def function_args(a):
    """resolve_function and its per-argument closure, the callees (query, the built-in itself, the recursive call) arbitrary"""
    LV = enum_variants(a.src, "rules/exprs.rs", "LetValue")
    FE = struct_fields(a.src, "rules/exprs.rs", "FunctionExpr")
    AQ = struct_fields(a.src, "rules/exprs.rs", "AccessQuery")
    RF = r"(?:(?:rules::)?eval_context::)?resolve_function"
    bad_all = []
    for var in LV:
        holder = {}

        def prep(ex, var=var):
            x = ex.opq()
            ex.proj[("disc", x[1])] = str(LV.index(var))
            holder["x"] = x
            return {"_3": x}
        ex = a.exec(RF + r"::\{closure#0\}", {"query": m_result_opq, "resolve_function": m_result_opq,
                                               "box_assume_init_into_vec_unsafe": mirexec.m_vec_from_array, "new": mirexec.m_identity},
                    log=("push",), prep=prep, unroll=1, max_paths=200, deepen=False)
        x, env, acc = holder["x"], ex.arg_env["_1"], ex.arg_env["_2"]
        resolver = ex.proj.get((env[1], ".0"))
        bad = []
        for p in ex.paths:
            r = p.ret
            pushes = [e for e in calls(p, "push") if len(e[2]) == 2]
            qs, rfs = calls(p, "query"), calls(p, "resolve_function")
            if p.outcome != "return" or not r or r[0] != "enum" or r[1] != "Result" or len(pushes) > 1:
                bad.append(pc_term(p.pc))
                continue
            resolver = ex.proj.get((env[1], ".0"))
            if var == "Value":
                val = ex.proj.get((x[1], "as Value.0"))
                ok = (len(pushes) == 1 and not qs and not rfs and pushes[0][2][0] == acc and pushes[0][2][1][0] == "array"
                      and len(pushes[0][2][1][1]) == 1 and pushes[0][2][1][1][0][0] == "variant" and pushes[0][2][1][1][0][2] == "Literal"
                      and val is not None and pushes[0][2][1][1][0][3] == [val] and r[3].get("Ok") == acc)
                good = f"(= {r[2]} 0)" if ok else "false"
            else:
                cs = qs if var == "AccessClause" else rfs
                other = rfs if var == "AccessClause" else qs
                if len(cs) != 1 or other:
                    bad.append(pc_term(p.pc))
                    continue
                c = cs[0]
                if var == "AccessClause":
                    q = ex.proj.get((ex.proj.get((x[1], "as AccessClause.0"), (None, -1))[1], f".{AQ.index('query')}"))
                    wired = q is not None and c[2][0] == resolver and c[2][1] == q
                else:
                    fe = ex.proj.get((x[1], "as FunctionCall.0"), (None, -1))
                    wired = (c[2][0] == ex.proj.get((fe[1], f".{FE.index('name')}")) and c[2][1] == ex.proj.get((fe[1], f".{FE.index('parameters')}"))
                             and c[2][2] == resolver and None not in c[2][:3])
                ctag, cval = c[3][2], c[3][3]["Ok"]
                if pushes:
                    ok = wired and pushes[0][2][0] == acc and pushes[0][2][1] == cval and r[3].get("Ok") == acc
                    good = f"(and (= {ctag} 0) (= {r[2]} 0))" if ok else "false"
                else:
                    good = f"(and (= {ctag} 1) (= {r[2]} 1))" if wired else "false"
            bad.append(f"(and {pc_term(p.pc)} (not {good}))")
        c = a.discharge("resolve_function/argument", ex, bad,
                        f"one argument of a built-in call, kind {var}: a literal becomes [Literal(that value)], a query is evaluated in the scope "
                        "given (its own query), a nested call is resolved recursively with its own name and parameters in the same scope; exactly "
                        "that result is appended to the argument list, which is returned; a failing callee fails the call", witness=False)
        if c:
            c["replay"] = replay_function_args(a)
            c["reproduced"] = c["replay"].get("reproduced", False)
            a.candidates.append(c)
    # --- the call itself
    ex = a.exec(RF, {"try_fold": m_result_opq, "call": m_result_opq}, log=("flatten", "map", "collect", "filter", "filter_map", "rev", "skip", "take"),
                unroll=1, max_paths=200, deepen=False)
    a.fns.append("rules::eval_context::resolve_function (+ its argument closure)")
    bad = []
    for p in ex.paths:
        r = p.ret
        tf, cl = calls(p, "try_fold"), calls(p, "call")
        if p.outcome != "return" or not r or r[0] != "enum" or len(tf) != 1 or len(cl) > 1:
            bad.append(pc_term(p.pc))
            continue
        t = tf[0]
        clos = t[2][2] if len(t[2]) > 2 else None
        wired = (t[2][0] == ex.arg_env["_2"] and clos is not None and clos[0] == "struct" and list(clos[2].values()) == [ex.arg_env["_3"]])
        if not cl:
            good = f"(and (= {t[3][2]} 1) (= {r[2]} 1))" if wired else "false"
        else:
            c = cl[0]
            wired = wired and c[2][0] == ex.arg_env["_1"] and c[2][1] == t[3][3]["Ok"]
            chain = [(e[1], str(e[5])) for e in p.events if e[0] == "call" and e[1] in ("flatten", "map", "collect", "filter", "filter_map", "rev", "skip", "take")]
            if r[2] == "0" or (r[3].get("Ok") is not None and "Err" not in r[3]):
                names = [n for n, _ in chain]
                ok_chain = (names == ["flatten", "map", "map", "collect"] and "Rc::<" in chain[1][1] and "::new}" in chain[1][1]
                            and "QueryResult::Resolved}" in chain[2][1].replace("rules::", ""))
                # the chain starts at the built-in's result and its end is what is returned
                evs = [e for e in p.events if e[0] == "call" and e[1] in ("flatten", "map", "collect")]
                linked = (evs and evs[0][2][0] == c[3][3]["Ok"] and all(evs[i + 1][2][0] == evs[i][3] for i in range(len(evs) - 1))
                          and r[3].get("Ok") == evs[-1][3])
                good = f"(and (= {t[3][2]} 0) (= {c[3][2]} 0))" if wired and ok_chain and linked else "false"
            else:
                good = f"(and (= {t[3][2]} 0) (= {c[3][2]} 1))" if wired else "false"
        bad.append(f"(and {pc_term(p.pc)} (not {good}))")
    c = a.discharge("resolve_function/call", ex, bad,
                    "a built-in call: the arguments are folded from the call's own parameter list in order (std try_fold) in the scope given; the "
                    "function called is the one named, on exactly that argument list; of its results the present ones (flatten over Option) are "
                    "wrapped as Resolved values, in order, nothing filtered or reordered; an error of an argument or of the function fails the call")
    if c:
        c["replay"] = replay_function_args(a)
        c["reproduced"] = c["replay"].get("reproduced", False)
        a.candidates.append(c)


def replay_function_args(a):
    exe = a.cli()
    if not exe:
        return {"reproduced": False, "note": "native build failed"}
    data = '{"s": "Hello", "t": "a,b", "L": ["x", "y"], "n": "12", "E": [], "names": ["ab", "cd"], "d": "-"}\n'
    prefix = ("let up = to_upper(s)\nlet lo = to_lower(to_upper(s))\nlet j = join(L[*], \",\")\nlet jd = join(L[*], d)\nlet c = count(L[*])\nlet ce = count(E[*])\n"
              "let num = parse_int(n)\nlet sub = substring(s, 0, 2)\nlet ups = to_upper(names[*])\n"
              "let lit = \"Hello\"\nlet cl = count(%lit)\nlet upl = to_upper(%lit)\nlet L2 = L[*]\nlet jl = join(%L2, \",\")\nlet ju = join(to_upper(names[*]), \"-\")\n")
    cases = [("%up == \"HELLO\"", "PASS"), ("%lo == \"hello\"", "PASS"), ("%j == \"x,y\"", "PASS"), ("%jd == \"x-y\"", "PASS"), ("%c == 2", "PASS"),
             ("%ce == 0", "PASS"), ("%num == 12", "PASS"), ("%sub == \"He\"", "PASS"),
             ("%ups in [\"AB\", \"CD\"]", "PASS"), ("some %ups == \"AB\"", "PASS"), ("some %ups == \"CD\"", "PASS"), ("%ups == \"AB\"", "FAIL"), ("some %ups == \"ab\"", "FAIL"), ("%cl == 1", "PASS"), ("%upl == \"HELLO\"", "PASS"),
             ("%jl == \"x,y\"", "PASS"), ("%ju == \"AB-CD\"", "PASS"), ("%ju == \"CD-AB\"", "FAIL"), ("%up == \"Hello\"", "FAIL"), ("%c == 3", "FAIL"), ("%sub == \"el\"", "FAIL"),
             ("s == to_lower(\"HELLO\")", "FAIL"), ("s == to_upper(\"hello\")", "FAIL"), ("%up == to_upper(\"hello\")", "PASS")]
    return a.replay_cases(exe, data, cases, prefix=prefix)


def substring_offsets(a):
    """C18 (`substring(s,i,j) is characters i..j ... strings for which the offsets are out of range are skipped`): how SubstringFunction::call
    turns the two integer arguments into the offsets handed to substring(). For arbitrary i64 arguments i, j: a non-negative argument is
    handed on unchanged; a negative one becomes an offset no string can have (> isize::MAX), so that every string is skipped. (Float
    arguments: float-to-int casts are not modelled - outside the claim.)"""
    import miragg
    PV = enum_variants(a.src, "rules/path_value.rs", "PathAwareValue")
    QR = enum_variants(a.src, "rules/mod.rs", "QueryResult")
    ns = []

    def m_first(ex, av):
        el = ex.opq()
        ex.proj[("disc", el[1])] = str(QR.index("Resolved"))
        pv = ex.opq()
        ex.proj[(el[1], "as Resolved.0")] = pv
        ex.proj[("disc", pv[1])] = str(PV.index("Int"))
        tup = ex.opq()
        ex.proj[(pv[1], "as Int.0")] = tup
        n = ex.fresh_int("i64", "idx")
        ex.proj[(tup[1], ".1")] = n
        ns.append((str(av[0]) if av else "", n))
        return ("enum", "Option", "1", {"Some": el})
    def m_try_from(ex, av):
        # usize::try_from(i64): Ok(n) iff 0 <= n (std contract; usize is 64 bits here)
        n = av[0]
        if not av or n[0] != "int":
            return ex.fresh_result(ex.havoc("usize"), "tf")
        t = ex.fresh("Int", "tf")
        ex.side.append(f"(= {t} (ite (>= {n[1]} 0) 0 1))")
        return ("enum", "Result", t, {"Ok": ("int", n[1]), "Err": ("int", ex.fresh("Int", "err"))})

    def m_unwrap_or(ex, av):
        r_, dflt = av[0], av[1]
        if r_[0] != "enum" or dflt[0] != "int" or r_[3].get("Ok", ("x",))[0] != "int":
            return ex.havoc("usize")
        out = ex.fresh_int("usize", "uo")
        ex.side.append(f"(= {out[1]} (ite (= {r_[2]} 0) {r_[3]['Ok'][1]} {dflt[1]}))")
        return out
    ex = a.exec(miragg.Agg.CALLABLE_IMPL, {"first": m_first, "substring": m_result_opq, "from": mirexec.m_identity, "deref": mirexec.m_identity,
                                         "try_from": m_try_from, "unwrap_or": m_unwrap_or},
                log=("index",), first_arg_re=r"_1: &(?:eval_context::)?SubstringFunction,", unroll=1, max_paths=4000, deepen=False)
    a.fns.append("rules::eval_context::<SubstringFunction as Callable>::call (offsets)")
    bad, ncall = [], 0
    MAXI = 9223372036854775807
    for p in ex.paths:
        subs = calls(p, "substring")
        if not subs:
            continue
        ncall += 1
        e = subs[0]
        if len(e[2]) != 3 or e[2][1][0] != "int" or e[2][2][0] != "int" or len(ns) < 2:
            bad.append(pc_term(p.pc))
            continue
        terms = []
        for off, (_src, n) in zip((e[2][1][1], e[2][2][1]), ns[-2:]):
            terms.append(f"(ite (>= {n[1]} 0) (= {off} {n[1]}) (> {off} {MAXI}))")
        bad.append(f"(and {pc_term(p.pc)} (not (and {' '.join(terms)})))")
    c = a.discharge("functions/substring/offsets-are-the-arguments", ex, bad,
                    f"SubstringFunction::call with two integer arguments i, j (any i64; {ncall} calling paths): substring() is handed exactly i and j when they "
                    "are non-negative and an offset above isize::MAX (out of range for every string) for a negative one - never a wrapped-around small number")
    if c:
        c["replay"] = replay_substring_offsets(a)
        c["reproduced"] = c["replay"].get("reproduced", False)
        a.candidates.append(c)


def replay_substring_offsets(a):
    exe = a.cli()
    if not exe:
        return {"reproduced": False, "note": "native build failed"}
    data = '{"s": "abcdef", "big": 65536, "neg": -65534}\n'
    prefix = ("let ok = substring(s, 0, 2)\nlet w1 = substring(s, 65536, 65538)\nlet w2 = substring(s, 0, 65538)\nlet w3 = substring(s, -65536, 2)\n"
              "let w4 = substring(s, big, 65538)\nlet w5 = substring(s, 131072, 131075)\nlet w6 = substring(s, 4294967296, 4294967298)\nlet w7 = substring(s, 1, -65533)\n")
    cases = [("%ok == \"ab\"", "PASS"), ("%ok !empty", "PASS")]
    # out-of-range offsets: the string is skipped, the variable holds nothing: `!empty` FAILs, `empty` PASSes
    for v in ("w1", "w2", "w3", "w4", "w5", "w6", "w7"):
        cases += [(f"%{v} empty", "PASS"), (f"%{v} !empty", "FAIL")]
    return a.replay_cases(exe, data, cases, prefix=prefix)


def case_converters(a):
    """C18 (`to_upper / to_lower return ... exactly the documented result`: the string with ALL its characters converted): the string
    pushed for a String element is the result of std's Unicode `str::to_lowercase` / `str::to_uppercase` of that element's text - not an
    ASCII-only conversion, not a conversion of something else"""
    for fname, std_fn, wrong in (("to_lower", "to_lowercase", "to_uppercase"), ("to_upper", "to_uppercase", "to_lowercase")):
        ex = a.exec(r"(?:(?:rules::functions::)?strings::)?" + fname,
                    {"next": mirexec.m_iter_next, "iter": mirexec.m_new_iter, "into_iter": mirexec.m_new_iter, "with_capacity": lambda ex, av: ex.opq(),
                     std_fn: lambda ex, av: ex.opq(), "clone": mirexec.m_identity},
                    log=("push", "make_ascii_lowercase", "make_ascii_uppercase", "to_ascii_lowercase", "to_ascii_uppercase", wrong, "map", "collect", "chars"),
                    unroll=1, max_paths=4000, first_arg_re=r"_1: &\[(?:rules::)?QueryResult\]", deepen=False)
        a.fns.append(f"rules::functions::strings::{fname} (the conversion itself)")
        bad, nconv = [], 0
        for p in ex.paths:
            if p.outcome != "return":
                continue
            convs = [e for e in p.events if e[0] == "call" and e[1] == std_fn]
            other = [e for e in p.events if e[0] == "call" and e[1] in ("make_ascii_lowercase", "make_ascii_uppercase", "to_ascii_lowercase", "to_ascii_uppercase", wrong, "chars")]
            ok = not other
            for e in [x for x in calls(p, "push") if len(x[2]) == 2]:
                v = e[2][1]
                some = v[3].get("Some") if v[0] == "enum" else (v[3][0] if v[0] == "variant" and v[2] == "Some" and v[3] else None)
                if some is None or not (some[0] == "variant" and some[2] == "String"):
                    continue
                nconv += 1
                tup = some[3][0]
                txt = tup[1][1] if tup[0] == "tuple" and len(tup[1]) == 2 else None
                ok = ok and txt is not None and any(txt == c_[3] and "core::str" in str(c_[5]) or txt == c_[3] and "str::<impl str>" in str(c_[5]) for c_ in convs)
            bad.append(f"(and {pc_term(p.pc)} (not {'true' if ok else 'false'}))")
        c = a.discharge(f"functions/{fname}/unicode-conversion", ex, bad,
                        f"{fname}, one element ({nconv} converted strings over all paths): the text of the String pushed is std's `str::{std_fn}` of an input "
                        "(the full Unicode case mapping); no ASCII-only or opposite conversion takes part")
        if c:
            c["replay"] = replay_case_converters(a)
            c["reproduced"] = c["replay"].get("reproduced", False)
            a.candidates.append(c)


def replay_case_converters(a):
    exe = a.cli()
    if not exe:
        return {"reproduced": False, "note": "native build failed"}
    data = '{"u": "\\u00c9COLE-\\u00c4RGER", "l": "\\u00e9cole-\\u00e4rger", "a": "MiXed", "g": "\\u03a3\\u0391"}\n'
    prefix = "let lu = to_lower(u)\nlet ul = to_upper(l)\nlet la = to_lower(a)\nlet ua = to_upper(a)\nlet lg = to_lower(g)\n"
    cases = [("%lu == \"école-ärger\"", "PASS"), ("%ul == \"ÉCOLE-ÄRGER\"", "PASS"), ("%la == \"mixed\"", "PASS"), ("%ua == \"MIXED\"", "PASS"),
             ("%lu == \"École-Ärger\"", "FAIL"), ("%lg == \"σα\"", "PASS")]
    return a.replay_cases(exe, data, cases, prefix=prefix)


def join_sequence(a):
    """join(args, delimiter): what is appended to the result, in which order"""
    QR = enum_variants(a.src, "rules/mod.rs", "QueryResult")
    PV = enum_variants(a.src, "rules/path_value.rs", "PathAwareValue")
    ex = a.exec(r"(?:(?:rules::functions::)?strings::)?join",
                {"next": mirexec.m_iter_next, "iter": mirexec.m_new_iter, "into_iter": mirexec.m_new_iter, "enumerate": mirexec.m_identity,
                 "with_capacity": lambda ex, av: ex.opq(), "re:String::is_empty$": lambda ex, av: ex.havoc("bool"),
                 "re:<impl \\[.*\\]>::is_empty$": lambda ex, av: ("bool", f"(= {ex.len_of(av[0])} 0)"),
                 "len": lambda ex, av: ("int", ex.len_of(av[0])), "self_path": lambda ex, av: ex.opq(), "clone": mirexec.m_identity},
                log=("push_str", "push"), unroll=3, max_paths=60000, first_arg_re=r"_1: &\[(?:rules::)?QueryResult\]")
    a.fns.append("rules::functions::strings::join")
    args, delim = ex.arg_env["_1"], ex.arg_env["_2"]
    rev = {}
    for k, v in ex.proj.items():
        if isinstance(k, tuple) and len(k) == 2 and isinstance(k[0], int) and isinstance(v, tuple) and v and v[0] == "opaque":
            rev.setdefault(v[1], k[0])

    def from_el(v, el):
        i, d = (v[1] if v and v[0] == "opaque" else None), 0
        while i is not None and d < 40:
            if el is not None and el[0] == "opaque" and i == el[1]:
                return True
            i = rev.get(i)
            d += 1
        return False
    bad, npath = [], 0
    n = ex.len_of(args)
    for p in ex.paths:
        r = p.ret
        if p.outcome == "panic" or not r or r[0] != "enum" or r[1] != "Result":
            bad.append(pc_term(p.pc))
            continue
        # rebuild rev for projections created on this path too
        for k, v in ex.proj.items():
            if isinstance(k, tuple) and len(k) == 2 and isinstance(k[0], int) and isinstance(v, tuple) and v and v[0] == "opaque":
                rev.setdefault(v[1], k[0])
        okv = r[3].get("Ok")
        if okv is None:
            continue                         # an Err result: a non-string / unresolved member (kinds are decided by the Kani harness)
        npath += 1
        its = [(k, el, tag) for k, el, tag, _i in iterations(ex, p, it_filter=lambda ev: ex.iter_src.get(ev[2][0][1], ev[2][0]) == args)
               if f"(= {tag} 1)" in p.pc]
        pushes = [e for e in calls(p, "push_str")]
        acc = pushes[0][2][0] if pushes else None
        want_len = 2 * len(its) - 1 if its else 0
        probs = []
        if len(pushes) != want_len:
            probs.append(f"{len(pushes)} pieces appended for {len(its)} members (expected {want_len}: members with one delimiter between neighbours)")
        else:
            for j, e in enumerate(pushes):
                if not same_v(e[2][0], acc):
                    probs.append("pieces go to different strings")
                if j % 2 == 0:
                    el = its[j // 2][1]
                    if el is not None and el[0] == "tuple":
                        el = el[1][1]
                    if not from_el(e[2][1], el):
                        probs.append(f"piece {j} is not the text of member {j // 2}")
                elif not same_v(e[2][1], delim):
                    probs.append(f"piece {j} is not the delimiter")
        # the string returned is the one that was built
        if okv[0] == "variant" and okv[3] and okv[3][0][0] == "tuple" and acc is not None and not same_v(okv[3][0][1][1], acc):
            probs.append("the returned string is not the one built")
        n_it = "(+ 0 0 " + " ".join(f"(ite (= {t} 1) 1 0)" for _k, _e, t, _i in iterations(ex, p, it_filter=lambda ev: ex.iter_src.get(ev[2][0][1], ev[2][0]) == args)) + ")"
        complete = f"(= {n_it} {n})" if len(its) <= 3 else "true"
        bad.append(f"(and {pc_term(p.pc)} (= {r[2]} 0) (not {'false' if probs else complete}))")
    c = a.discharge("functions/join/sequence", ex, bad,
                    f"join over <= 3 members ({npath} Ok paths), contents of the strings arbitrary (also empty): the result is built by appending, "
                    "in order, member 0, delimiter, member 1, delimiter, ... member n-1 - exactly one delimiter between neighbours, none before "
                    "the first or after the last, whatever the members contain; every member is visited; the string built is the one returned")
    if c:
        c["replay"] = replay_join(a)
        c["reproduced"] = c["replay"].get("reproduced", False)
        a.candidates.append(c)


def replay_join(a):
    exe = a.cli()
    if not exe:
        return {"reproduced": False, "note": "native build failed"}
    data = ('{"abc": ["a", "b", "c"], "one": ["x"], "none": [], "lead": ["", "a", "b"], "lead2": ["", "", "a"], "mid": ["a", "", "b"],\n'
            ' "tail": ["a", "b", ""], "allempty": ["", ""], "sp": ["a b", "c"]}\n')
    lets = ("let j_abc = join(abc[*], \",\")\nlet j_one = join(one[*], \",\")\nlet j_lead = join(lead[*], \",\")\nlet j_lead2 = join(lead2[*], \",\")\n"
            "let j_mid = join(mid[*], \",\")\nlet j_tail = join(tail[*], \",\")\nlet j_all = join(allempty[*], \",\")\nlet j_sp = join(sp[*], \"--\")\n"
            "let j_e = join(abc[*], \"\")\n")
    cases = [("%j_abc == \"a,b,c\"", "PASS"), ("%j_one == \"x\"", "PASS"), ("%j_lead == \",a,b\"", "PASS"), ("%j_lead2 == \",,a\"", "PASS"),
             ("%j_mid == \"a,,b\"", "PASS"), ("%j_tail == \"a,b,\"", "PASS"), ("%j_all == \",\"", "PASS"), ("%j_sp == \"a b--c\"", "PASS"),
             ("%j_e == \"abc\"", "PASS"), ("%j_abc == \"a,b,c,\"", "FAIL"), ("%j_lead == \"a,b\"", "FAIL")]
    return a.replay_cases(exe, data, cases, prefix=lets)


def parser_clause_wiring(a):
    """the access-clause parser (clause_with_map): what it parsed is what it builds - the clause's `negation` flag is exactly
    'a prefix not was parsed' and its comparator is exactly what value_cmp returned"""
    ex = a.exec(r"clause_with_map", {"parse": m_result_opq, "call_mut": m_result_opq, "branch": mirexec.m_try_branch,
                                     "from_residual": mirexec.m_from_residual, "is_some": lambda ex, av: pure_is_some(ex, av)},
                log=("*",), unroll=1, max_paths=5000)
    a.fns.append("rules::parser::clause_with_map (generic body)")

    def derived(v, base):
        if v is None or base is None or v[0] != "opaque" or base[0] != "opaque":
            return False
        rev = {val[1]: k[0] for k, val in ex.proj.items() if isinstance(k, tuple) and len(k) == 2 and isinstance(k[0], int)
               and isinstance(val, tuple) and val and val[0] == "opaque"}
        i, d = v[1], 0
        while i is not None and d < 40:
            if i == base[1]:
                return True
            i = rev.get(i)
            d += 1
        return False
    bad, nbuilt = [], 0
    for p in ex.paths:
        evs = [e for e in p.events if e[0] == "call"]
        built = [e for e in evs if e[1] == "call_mut" and len(e[2]) > 1 and e[2][1][0] == "tuple" and e[2][1][1] and e[2][1][1][0][0] == "struct"
                 and e[2][1][1][0][1] == "GuardAccessClause"]
        if not built:
            continue
        nbuilt += 1
        gac = built[0][2][1][1][0][2]
        acl = gac.get("access_clause")
        probs = []
        # the parse of the optional prefix `not`
        opts = [e for e in evs if e[1] == "opt" and e[2] and e[2][0] == ("fn", "not")]
        # the combinator built right after opt(not) and applied to the clause's input: preceded(ws, opt(not))
        pre = []
        if opts:
            after = evs[evs.index(opts[0]) + 1:]
            if after and after[0][1] == "preceded" and len(after[0][2]) == 2 and after[0][2][0] == ("fn", "zero_or_more_ws_or_comment"):
                pre = [after[0]]
        first = [e for e in evs if e[1] == "call_mut" and pre and same_v(e[2][0], pre[0][3]) and e[3][0] == "enum"]
        if not first:
            probs.append("no parse of an optional prefix `not` found")
        else:
            payload1 = first[0][3][3]["Ok"]
            iss = [e for e in evs if e[1] == "is_some" and e[2] and derived(e[2][0], payload1)]
            neg = gac.get("negation")
            if not (iss and neg is not None and neg[0] == "bool" and neg[1] == iss[-1][3][1]):
                probs.append("`negation` is not 'the optional prefix not was present'")
        # the comparator: whatever the second parse (query, ws, value_cmp) returned, untouched
        ctxs = [e for e in evs if e[1] == "context" and len(e[2]) == 2 and e[2][1] == ("fn", "value_cmp")]
        second = [e for e in evs if e[1] == "call_mut" and e[3][0] == "enum" and e is not (first[0] if first else None) and e is not built[0]]
        cmp_ = acl[2].get("comparator") if acl is not None and acl[0] == "struct" else None
        if not ctxs:
            probs.append("value_cmp is not the comparator parser")
        if not (cmp_ is not None and any(derived(cmp_, e[3][3]["Ok"]) for e in second)):
            probs.append("the comparator stored is not the one parsed")
        qry = acl[2].get("query") if acl is not None and acl[0] == "struct" else None
        if not (qry is not None and any(derived(qry, e[3][3]["Ok"]) for e in second)):
            probs.append("the query stored is not the one parsed")
        if probs and os.environ.get("VERIF_DEBUG"):
            print("parser_clause_wiring:", probs)
        bad.append(pc_term(p.pc) if probs else "false")
    c = a.discharge("parser/clause_with_map/builds-what-it-parsed", ex, bad,
                    f"access-clause parser ({nbuilt} paths that build a clause; every combinator application is an arbitrary parse result): the "
                    "clause built carries negation = 'the optional prefix `not` parsed to Some', and the query and (operator, operator-level "
                    "not) pair exactly as returned by the query / value_cmp parsers - prefix and operator-level negation are kept apart, "
                    "neither folded into the other", witness=False)
    if c:
        c["replay"] = replay_negation(a)
        c["reproduced"] = c["replay"].get("reproduced", False)
        a.candidates.append(c)


def pure_is_some(ex, av):
    if not av:
        return ex.havoc("bool")
    if av[0][0] == "enum":
        return ("bool", f"(= {av[0][2]} 1)")
    k = ("is_some", av[0][1]) if av[0][0] == "opaque" else None
    if k is None:
        return ex.havoc("bool")
    if k not in ex.proj:
        ex.proj[k] = ex.havoc("bool")
    return ex.proj[k]


def derived_or_same(v, base):
    return v is not None and base is not None and str(v) == str(base)


def flip_listin(a):
    """operator-level `not` on a failed list-in comparison (`[..] not in [..]`, lhs a list value): which elements make up the
    new difference and when the negated outcome is Success"""
    VER = enum_variants(a.src, "rules/eval/operators.rs", "ValueEvalResult")
    CR = enum_variants(a.src, "rules/eval/operators.rs", "ComparisonResult")
    CMP = enum_variants(a.src, "rules/eval/operators.rs", "Compare")
    PV = enum_variants(a.src, "rules/path_value.rs", "PathAwareValue")
    LI = struct_fields(a.src, "rules/eval/operators.rs", "ListIn")
    h = {}

    def prep(ex):
        e = ex.opq()
        ex.proj[("disc", e[1])] = str(VER.index("ComparisonResult"))
        cr = payload(ex, e, "ComparisonResult")
        ex.proj[("disc", cr[1])] = str(CR.index("Fail"))
        c = payload(ex, cr, "Fail")
        ex.proj[("disc", c[1])] = str(CMP.index("ListIn"))
        h.update(e=e, cr=cr, c=c)
        return {"_2": e}

    def m_is_empty_counted(ex, av):
        # is_empty() of the vector being built: decided by the pushes made to it so far on this path
        if av and av[0][0] == "opaque":
            n = sum(1 for ev in ex.cur_events if ev[0] == "call" and ev[1] == "push" and ev[2] and ev[2][0] == av[0])
            made = any(ev[0] == "call" and ev[1] == "with_capacity" and ev[3] == av[0] for ev in ex.cur_events)
            if made:
                return ("bool", "true" if n == 0 else "false")
        return ex.havoc("bool")
    ex = a.exec(OPS_IMPL + r"::\{closure#0\}",
                {"next": mirexec.m_iter_next, "iter": mirexec.m_new_iter, "into_iter": mirexec.m_new_iter, "contains": lambda ex, av: ex.havoc("bool"),
                 "with_capacity": lambda ex, av: ex.opq(), "clone": mirexec.m_identity, "re:Rc::<.*>::new$": mirexec.m_identity,
                 "is_empty": m_is_empty_counted},
                log=("push", "contains", "with_capacity", "new", "reverse_diff"), unroll=2, max_paths=20000,
                first_arg_re=r"_1: &mut \{closure@[^}]*\}, _2: (?:operators::)?ValueEvalResult", prep=prep)
    a.fns.append("rules::eval::operators::<(CmpOperator, bool) as Comparator>::compare::{closure#0} (failed list-in arm)")
    lin = payload(ex, h["c"], "ListIn")
    diff = field(ex, lin, LI.index("diff"), "Vec")
    lhs_rc = field(ex, lin, LI.index("lhs"), "Rc")
    rhs_rc = field(ex, lin, LI.index("rhs"), "Rc")
    is_list = f"(= {disc(ex, lhs_rc)} {PV.index('List')})"
    bad, nel = [], 0
    for p in ex.paths:
        r = p.ret
        if p.outcome == "panic":
            bad.append(f"(and {pc_term(p.pc)} {is_list})")        # unreachable!() only for a ListIn whose lhs is not a list
            continue
        if not (r and r[0] == "variant" and r[2] == "ComparisonResult" and r[3] and r[3][0][0] == "variant"):
            bad.append(pc_term(p.pc))
            continue
        outcome = r[3][0][2]
        elems = field(ex, payload(ex, lhs_rc, "List"), 1, "Vec")
        its = [(k, el, tag, i) for k, el, tag, i in iterations(ex, p, it_filter=lambda ev: ex.iter_src.get(ev[2][0][1], ev[2][0]) == elems)]
        entered = [(k, el, tag, i) for k, el, tag, i in its if f"(= {tag} 1)" in p.pc]
        bounds = [i for _k, _e, _t, i in its] + [len(p.events)]
        probs, parts, npush = [], [], 0
        if not its:
            probs.append("the elements of the left-hand list are not walked")
        for n, (k, el, tag, i0) in enumerate(its):
            if f"(= {tag} 1)" not in p.pc:
                continue
            nel += 1
            seg = [e for i, e in enumerate(p.events) if bounds[n] <= i < bounds[n + 1] and e[0] == "call"]
            cs = [e for e in seg if e[1] == "contains"]
            pu = [e for e in seg if e[1] == "push"]
            if not (len(cs) == 1 and same_v(cs[0][2][0], diff) and same_v(cs[0][2][1], el)):
                probs.append("an element is not looked up in the old difference")
                continue
            if pu:
                npush += 1
                ok = len(pu) == 1 and same_v(pu[0][2][1], el)
                parts.append(f"(not {cs[0][3][1]})" if ok else "false")
            else:
                parts.append(cs[0][3][1])
        news = [e for e in p.events if e[0] == "call" and e[1] == "new" and len(e[2]) == 3]
        made = [e for e in p.events if e[0] == "call" and e[1] == "with_capacity"]
        if not (len(news) == 1 and made and same_v(news[0][2][0], made[-1][3]) and same_v(news[0][2][1], lhs_rc) and same_v(news[0][2][2], rhs_rc)):
            probs.append("the result is not ListIn(new difference, same lhs, same rhs)")
        n_it = "(+ 0 0 " + " ".join(f"(ite (= {t} 1) 1 0)" for _k, _e, t, _i in its) + ")"
        complete = f"(= {n_it} {len(entered)})"
        want = "Success" if npush == 0 else "Fail"
        good = f"(and {complete} {' '.join(parts) if parts else 'true'} {'true' if outcome == want else 'false'})"
        bad.append(f"(and {pc_term(p.pc)} {is_list} (not {'false' if probs else good}))")
    c = a.discharge("operators::negated-compare/list-in-difference", ex, bad,
                    f"operator-level `not` on a FAILED list-in outcome, left list of <= 2 elements ({nel} element visits), membership in the old "
                    "difference arbitrary: every element of the left list is looked up in the old difference; the new difference consists, in "
                    "order, of exactly the elements that were NOT in it (the ones that were found on the right); the negated outcome is "
                    "Success iff that new difference is empty, else Fail; lhs and rhs are carried over unchanged")
    if c:
        c["replay"] = replay_list_not_in(a)
        c["reproduced"] = c["replay"].get("reproduced", False)
        a.candidates.append(c)


def replay_list_not_in(a):
    exe = a.cli()
    if not exe:
        return {"reproduced": False, "note": "native build failed"}
    data = '{"A": ["x", "y"],\n "S": [ {"act": ["x", "y"]}, {"act": ["p"]} ], "one": ["x"]}\n'
    cases = [("A in [\"x\", \"y\", \"w\"]", "PASS"), ("A in [\"x\", \"z\"]", "FAIL"), ("A not in [\"p\", \"q\"]", "PASS"),
             ("A not in [\"x\", \"z\"]", "FAIL"), ("A not in [\"x\", \"y\", \"w\"]", "FAIL"), ("A not in [\"z\", \"y\"]", "FAIL"),
             ("one not in [\"x\"]", "FAIL"), ("one not in [\"q\"]", "PASS"), ("S[*].act not in [\"q\", \"r\"]", "PASS"),
             ("S[*].act not in [\"x\", \"r\"]", "FAIL"), ("S[*].act not in [\"p\", \"r\"]", "FAIL"), ("not A in [\"x\", \"z\"]", "FAIL"),
             ("not A in [\"x\", \"y\", \"w\"]", "FAIL")]
    return a.replay_cases(exe, data, cases)


def unary_empty_on_expr(a):
    """`%var empty` / `q[filter] empty` (and `!empty`, and under a prefix `not`): per value, the status AND the record"""
    CMPO = enum_variants(a.src, "rules/values.rs", "CmpOperator")
    saved = a.enums
    a.enums = dict(a.enums, CmpOperator=CMPO)
    h = {}

    def prep(ex):
        neg = ex.havoc("bool")
        h["neg"] = neg
        return {"_2": ("tuple", [("enum", "CmpOperator", str(CMPO.index("Empty")), {}), neg])}
    try:
        ex = a.exec(r"(?:rules::eval::)?unary_operation",
                    {"query": m_result_opq, "next": mirexec.m_iter_next, "into_iter": mirexec.m_new_iter, "iter": mirexec.m_new_iter,
                     "is_variable": lambda ex, av: ex.havoc("bool"), "is_null": lambda ex, av: ex.havoc("bool"), "is_empty": mirexec.m_is_empty,
                     "len": lambda ex, av: ("int", ex.len_of(av[0])), "start_record": mirexec.m_result_unit, "end_record": mirexec.m_result_unit,
                     "with_capacity": lambda ex, av: ex.opq(), "clone": mirexec.m_identity,
                     "eq": lambda ex, av: ("bool", f"(= {av[0][2]} {av[1][2]})") if len(av) == 2 and av[0][0] == "enum" and av[1][0] == "enum" else ex.havoc("bool"),
                     "branch": mirexec.m_try_branch, "from_residual": mirexec.m_from_residual},
                    log=("push", "is_null"), unroll=1, max_paths=60000, prep=prep, deepen=False)     # 2 values already give 4k paths
    finally:
        a.enums = saved
    a.fns.append("rules::eval::unary_operation (`empty` directly on a variable / filter)")
    inverse = ex.arg_env["_3"]
    neg = h["neg"]
    P, F = a.P, a.F
    bad, nval = [], 0
    for p in ex.paths:
        pushes = [e for e in calls(p, "push") if len(e[2]) == 2 and e[2][1][0] == "tuple" and len(e[2][1][1]) == 2]
        ends = calls(p, "end_record")
        nulls = calls(p, "is_null")
        if not calls(p, "start_record"):
            continue                      # the general unary path (records are written by the operator closures): other obligations
        parts, probs = [], []
        # every value visited writes one record; the value pushed for it comes right after
        for k, pu in enumerate(pushes):
            nval += 1
            res, st = pu[2][1][1]
            if k >= len(ends) or st[0] != "enum":
                probs.append("a value without a record")
                continue
            rec = ends[k][2][2] if len(ends[k][2]) > 2 else None
            kind = rec[3][0][2] if rec and rec[0] == "variant" and rec[2] == "ClauseValueCheck" and rec[3] and rec[3][0][0] == "variant" else None
            if kind == "Success":
                parts.append(f"(= {st[2]} {P})")
            elif kind == "Unary":
                uv = rec[3][0][3][0]
                vc = uv[2].get("value") if uv[0] == "struct" else None
                ok = (vc is not None and vc[0] == "struct" and vc[2].get("status") == ("enum", "Status", str(F), {}) and str(vc[2].get("from")) == str(res)
                      and str(uv[2].get("comparison")) == str(ex.arg_env["_2"]))
                parts.append(f"(= {st[2]} {F})" if ok else "false")
            else:
                parts.append("false")
            # the status itself
            if res[0] == "variant" and res[2] == "UnResolved":
                base = f"(not {neg[1]})"
            elif res[0] == "variant" and res[2] == "Resolved":
                isn = [e for e in nulls if res[3] and str(e[2][0]) == str(res[3][0])]
                if not isn:
                    probs.append("a resolved value whose null-ness was not consulted")
                    continue
                base = f"(ite {neg[1]} (not {isn[0][3][1]}) {isn[0][3][1]})"
            else:
                probs.append("unexpected result kind")
                continue
            parts.append(f"(= (= {st[2]} {P}) (xor {base} {inverse[1]}))")
            parts.append(f"(or (= {st[2]} {P}) (= {st[2]} {F}))")
        if len(ends) > len(pushes) + 1:
            probs.append("records without values")
        bad.append(f"(and {pc_term(p.pc)} (not {'false' if probs else '(and true ' + ' '.join(parts) + ')'}))")
    c = a.discharge("unary_operation/empty-on-expression", ex, bad,
                    f"`empty` / `!empty` applied directly to a variable or filter, <= 2 values ({nval} value visits), null-ness, operator-level "
                    "`!` and prefix `not` all symbolic: a resolved value is PASS iff (it is null, for `empty`; it is not null, for `!empty`) xor the "
                    "prefix not; an unresolved entry counts as empty; and the record written for the value is `Success` exactly when that final "
                    "status is PASS, otherwise a failing unary check naming THIS value and this operator")
    if c:
        c["replay"] = replay_var_empty(a)
        c["reproduced"] = c["replay"].get("reproduced", False)
        a.candidates.append(c)


def replay_var_empty(a):
    """`%v empty` family on variables with all-resolved, mixed and all-unresolved values: rule status AND which values are
    listed as failing checks"""
    exe = a.cli()
    if not exe:
        return {"reproduced": False, "note": "native build failed"}
    data = '{"Resources": {"named": {"P": {"N": "x"}}, "unnamed": {"P": {}}, "third": {"P": {"N": "y"}}},\n "z": null}\n'
    pre = "let names = Resources.*.P.N\nlet all = Resources.*.P\nlet none = Resources.*.Q\n"
    cases = [("%names !empty", "FAIL", ["unnamed"]), ("not %names empty", "FAIL", ["unnamed"]), ("%names empty", "FAIL", ["named", "third"]),
             ("not %names !empty", "FAIL", ["named", "third"]), ("%all !empty", "PASS", []), ("not %all empty", "PASS", []),
             ("%none empty", "PASS", []), ("not %none !empty", "PASS", []), ("%none !empty", "FAIL", ["named", "unnamed", "third"])]
    out, tried = [], []
    for clause, exp, failing in cases:
        rules = pre + f"rule t {{\n  {clause}\n}}\n"
        rc, rep, err = a.run_structured(exe, rules, [data])
        if not (rep and isinstance(rep, list) and rep):
            tried.append({"clause": clause, "problem": "no report", "exit": rc})
            continue
        r = rep[0]
        got = "PASS" if "t" in r.get("compliant", []) else ("SKIP" if "t" in r.get("not_applicable", []) else "FAIL")
        txt = json.dumps([x for x in r.get("not_compliant", []) if "Rule" in x and x["Rule"].get("name") == "t"])
        listed = sorted(n for n in ("named", "unnamed", "third") if f"/Resources/{n}" in txt)
        ok = got == exp and (exp != "FAIL" or listed == sorted(failing))
        tried.append({"clause": clause, "ok": ok})
        if not ok:
            out.append({"clause": clause, "expected": exp, "observed": got, "expected_failing_values": sorted(failing), "listed_failing_values": listed})
    return {"reproduced": bool(out), "mismatches": out[:4], "data": data, "tried": tried,
            "note": "; ".join(t["clause"] for t in tried if "problem" in t) or None}


def empty_on_expr_condition(a):
    """C15 (`the only documented exception is the emptiness test on a bare variable, which tests the result set`) / C01: WHEN unary_operation
    takes the result-set path for `empty`: exactly for a query whose last part is a filter / key filter, or that consists of ONE part which is
    a variable. Query length, kind of the last part and is_variable are symbolic."""
    CMPO = enum_variants(a.src, "rules/values.rs", "CmpOperator")
    QP = enum_variants(a.src, "rules/exprs.rs", "QueryPart")
    saved = a.enums
    a.enums = dict(a.enums, CmpOperator=CMPO)
    isvar = {}

    def m_isvar(ex, av):
        k = str(av[0])
        if k not in isvar:
            isvar[k] = ex.havoc("bool")
        return isvar[k]

    def prep(ex):
        return {"_2": ("tuple", [("enum", "CmpOperator", str(CMPO.index("Empty")), {}), ex.havoc("bool")])}
    try:
        ex = a.exec(r"(?:rules::eval::)?unary_operation",
                    {"query": m_result_opq, "next": mirexec.m_iter_next, "into_iter": mirexec.m_new_iter, "iter": mirexec.m_new_iter,
                     "is_variable": m_isvar, "is_null": lambda ex, av: ex.havoc("bool"), "is_empty": mirexec.m_is_empty,
                     "len": lambda ex, av: ("int", ex.len_of(av[0])), "start_record": mirexec.m_result_unit, "end_record": mirexec.m_result_unit,
                     "with_capacity": lambda ex, av: ex.opq(), "clone": mirexec.m_identity,
                     "eq": lambda ex, av: ("bool", f"(= {av[0][2]} {av[1][2]})") if len(av) == 2 and av[0][0] == "enum" and av[1][0] == "enum" else ex.havoc("bool"),
                     "branch": mirexec.m_try_branch, "from_residual": mirexec.m_from_residual},
                    log=("index", "is_variable"), unroll=1, max_paths=60000, prep=prep, deepen=False)
    finally:
        a.enums = saved
    a.fns.append("rules::eval::unary_operation (when `empty` tests the result set)")
    q = ex.arg_env["_1"]
    n = ex.len_of(q)
    bad, npaths = [], 0
    for p in ex.paths:
        qs = calls(p, "query")
        if not qs or f"(= {qs[0][3][2]} 0)" not in p.pc:
            continue                                # the query itself failed
        # the last part: the element read at index len-1 (bounds-checked slice index: an assert event; the projection key holds the term)
        lasts = [v for (b, k), v in ex.proj.items() if b == q[1] and isinstance(k, str) and k.startswith("[") and v[0] == "opaque"]
        if len(lasts) != 1:
            bad.append(pc_term(p.pc))
            continue
        last = lasts[0]
        key = [k for (b, k), v in ex.proj.items() if b == q[1] and v == last][0]
        idx_ok = key.replace(" ", "") in (f"[(-{n}1)]", f"[(+{n}(-1))]") or re.fullmatch(r"\[\(- " + re.escape(n) + r" 1\)\]", key) is not None
        d = disc(ex, last)
        iv = isvar.get(str(last))
        special = bool(calls(p, "start_record"))
        npaths += 1
        cond = (f"(or (= {d} {QP.index('Filter')}) (= {d} {QP.index('MapKeyFilter')}) "
                + (f"(and {iv[1]} (= {n} 1))" if iv is not None else "false") + ")")
        good = cond if special else f"(not {cond})"
        bad.append(f"(and {pc_term(p.pc)} (not {good if idx_ok else 'false'}))")
    c = a.discharge("unary_operation/empty-tests-the-result-set-only-for", ex, bad,
                    f"unary_operation with the operator `empty` ({npaths} paths past the query; query length, kind of its last part and is_variable "
                    "symbolic): the result-set reading of `empty` is taken exactly when the LAST part is a filter / key filter, or the query is ONE part "
                    "and that part is a variable; every other query goes through the per-value `empty`")
    if c:
        c["replay"] = replay_empty_through_variable_key(a)
        c["reproduced"] = c["replay"].get("reproduced", False)
        a.candidates.append(c)


def replay_empty_through_variable_key(a):
    """`X.%k empty` must agree with `X.<key> empty` written in place (k a literal key name), for empty / non-empty / missing values;
    the bare-variable form `%v empty` keeps its documented result-set meaning"""
    exe = a.cli()
    if not exe:
        return {"reproduced": False, "note": "native build failed"}
    data = '{"R": {"e": {}, "l": [], "s": "", "f": {"x": 1}, "g": [1], "t": "x"}, "z": []}\n'
    prefix = "".join(f"let k{n} = '{n}'\n" for n in "elsfgt") + "let kq = 'q'\nlet all = R.*\nlet none = R.q\n"
    cases = []
    for key, emp in (("e", True), ("l", True), ("s", True), ("f", False), ("g", False), ("t", False)):
        for op, want_empty in (("empty", True), ("!empty", False)):
            exp = "PASS" if emp == want_empty else "FAIL"
            cases.append((f"R.{key} {op}", exp))
            cases.append((f"R.%k{key} {op}", exp))
            cases.append((f"not R.%k{key} {op}", "FAIL" if exp == "PASS" else "PASS"))
    cases += [("R.q empty", "PASS"), ("R.%kq empty", "PASS"), ("R.q !empty", "FAIL"), ("R.%kq !empty", "FAIL"),
              ("%none empty", "PASS"), ("%all !empty", "PASS"), ("%all empty", "FAIL")]
    return a.replay_cases(exe, data, cases, prefix=prefix)


def flip_queryin(a):
    """operator-level `not` on a failed query-in comparison (`q not in [..]`, `q != list`): which side the new difference
    is taken from, and when the negated outcome is Success"""
    VER = enum_variants(a.src, "rules/eval/operators.rs", "ValueEvalResult")
    CR = enum_variants(a.src, "rules/eval/operators.rs", "ComparisonResult")
    CMP = enum_variants(a.src, "rules/eval/operators.rs", "Compare")
    CMPO = enum_variants(a.src, "rules/values.rs", "CmpOperator")
    QI = struct_fields(a.src, "rules/eval/operators.rs", "QueryIn")
    h = {}

    def prep(ex):
        e = ex.opq()
        ex.proj[("disc", e[1])] = str(VER.index("ComparisonResult"))
        cr = payload(ex, e, "ComparisonResult")
        ex.proj[("disc", cr[1])] = str(CR.index("Fail"))
        c = payload(ex, cr, "Fail")
        ex.proj[("disc", c[1])] = str(CMP.index("QueryIn"))
        h.update(c=c)
        return {"_2": e}
    saved = a.enums
    a.enums = dict(a.enums, CmpOperator=CMPO)
    try:
        ex = a.exec(OPS_IMPL + r"::\{closure#0\}",
                    {"reverse_diff": lambda ex, av: ex.opq(), "is_empty": mirexec.m_is_empty, "len": lambda ex, av: ("int", ex.len_of(av[0])),
                     "clone": mirexec.m_identity, "deref": mirexec.m_identity},
                    log=("new",), unroll=1, max_paths=2000,
                    first_arg_re=r"_1: &mut \{closure@[^}]*\}, _2: (?:operators::)?ValueEvalResult", prep=prep)
    finally:
        a.enums = saved
    a.fns.append("rules::eval::operators::<(CmpOperator, bool) as Comparator>::compare::{closure#0} (failed query-in arm)")
    qin = payload(ex, h["c"], "QueryIn")
    diff, ql, qr = (field(ex, qin, QI.index(n), "Vec") for n in ("diff", "lhs", "rhs"))
    bad, n = [], 0
    for p in ex.paths:
        r = p.ret
        if p.outcome != "return" or not (r and r[0] == "variant" and r[2] == "ComparisonResult" and r[3] and r[3][0][0] == "variant"):
            bad.append(pc_term(p.pc))
            continue
        outcome = r[3][0][2]
        rd = calls(p, "reverse_diff")
        news = [e for e in calls(p, "new") if len(e[2]) == 3]
        lens = calls(p, "len")
        probs = []
        if len(rd) != 1 or not same_v(rd[0][2][0], diff) or not (same_v(rd[0][2][1], ql) or same_v(rd[0][2][1], qr)):
            probs.append("the new difference is not computed from the old difference and one of the two operand lists")
        if not (len(news) == 1 and rd and same_v(news[0][2][0], rd[0][3]) and same_v(news[0][2][1], ql) and same_v(news[0][2][2], qr)):
            probs.append("the result is not QueryIn(new difference, same lhs, same rhs)")
        if probs:
            bad.append(pc_term(p.pc))
            continue
        n += 1
        empty = f"(= {ex.len_of(rd[0][3])} 0)"
        want = "Success" if False else None
        good = f"(= {empty} {'true' if outcome == 'Success' else 'false'})"
        bad.append(f"(and {pc_term(p.pc)} (not {good}))")
    c = a.discharge("operators::negated-compare/query-in-difference", ex, bad,
                    f"operator-level `not` on a FAILED query-in outcome ({n} paths): the new difference is reverse_diff(old difference, one of the two "
                    "operand lists), the negated outcome is Success iff that new difference is empty, and lhs / rhs are carried over unchanged")
    if c:
        c["replay"] = replay_query_not_in(a)
        if not c["replay"].get("reproduced"):
            c["replay"] = replay_list_not_in(a)
        c["reproduced"] = c["replay"].get("reproduced", False)
        a.candidates.append(c)
    # reverse_diff's filter: keeps exactly the elements that are NOT in the old difference
    ex2 = a.exec(r"(?:(?:rules::eval::)?operators::)?reverse_diff::\{closure#0\}", {"contains": lambda ex, av: ex.havoc("bool"), "deref": mirexec.m_identity},
                 log=("contains",), unroll=1, max_paths=50)
    bad2 = []
    for p in ex2.paths:
        cs = calls(p, "contains")
        r = p.ret
        ok = p.outcome == "return" and len(cs) == 1 and r is not None and r[0] == "bool"
        bad2.append(f"(and {pc_term(p.pc)} (not (= {r[1]} (not {cs[0][3][1]}))))" if ok else pc_term(p.pc))
    c2 = a.discharge("operators::reverse_diff/filter", ex2, bad2, "reverse_diff keeps an element iff the old difference does NOT contain it", witness=False)
    if c2:
        c2["replay"] = replay_query_not_in(a)
        c2["reproduced"] = c2["replay"].get("reproduced", False)
        a.candidates.append(c2)


def replay_query_not_in(a):
    exe = a.cli()
    if not exe:
        return {"reproduced": False, "note": "native build failed"}
    data = '{"Q": [ {"v": 1}, {"v": 2}, {"v": 3} ],\n "one": [ {"v": 1} ], "all": [1, 2, 3, 4], "part": [1, 9], "none": [8, 9]}\n'
    cases = [("Q[*].v in [1, 2, 3, 4]", "PASS"), ("Q[*].v in [1, 2]", "FAIL"), ("Q[*].v not in [8, 9]", "PASS"), ("Q[*].v not in [1, 9]", "FAIL"),
             ("Q[*].v not in [1, 2, 3]", "FAIL"), ("not Q[*].v in [8, 9]", "PASS"), ("not Q[*].v in [1, 9]", "FAIL"), ("some Q[*].v not in [1, 2]", "PASS"),
             ("some Q[*].v not in [1, 2, 3]", "FAIL"), ("one[*].v not in [1]", "FAIL"), ("one[*].v not in [2]", "PASS"),
             ("Q[*].v in all[*]", "PASS"), ("Q[*].v in part[*]", "FAIL"), ("Q[*].v not in none[*]", "PASS"), ("Q[*].v not in part[*]", "FAIL"),
             ("Q[*].v not in all[*]", "FAIL"), ("not Q[*].v in none[*]", "PASS"), ("not Q[*].v in part[*]", "FAIL")]
    return a.replay_cases(exe, data, cases)


def gac_comparator_pair(a):
    """eval_guard_access_clause, binary path: exactly which (operator, negated?) pair reaches binary_operation"""
    GAC = struct_fields(a.src, "rules/exprs.rs", "GuardAccessClause")
    AC = struct_fields(a.src, "rules/exprs.rs", "AccessClause")

    def m_evalres(ex, argv):
        return ex.fresh_result(ex.opq(), "evr")
    ex = a.exec(r"(?:(?:rules::)?eval::)?eval_guard_access_clause",
                {"unary_operation": m_evalres, "binary_operation": m_evalres, "query": m_evalres, "resolve_function": m_evalres,
                 "is_unary": lambda ex, av: ("bool", ex.fresh("Bool", "unary"))}, unroll=1, max_paths=20000)
    a.fns.append("rules::eval::eval_guard_access_clause (comparator handed to the binary path)")
    gac = ex.arg_env["_1"]
    acl = field(ex, gac, GAC.index("access_clause"), "AccessClause")
    neg = field(ex, gac, GAC.index("negation"), "bool")
    cmpv = field(ex, acl, AC.index("comparator"), "(CmpOperator, bool)")
    op, flag = field(ex, cmpv, 0, "CmpOperator"), field(ex, cmpv, 1, "bool")
    bad, n = [], 0
    for p in ex.paths:
        for e in calls(p, "binary_operation"):
            n += 1
            c_ = e[2][2] if len(e[2]) > 2 else None
            if not (c_ is not None and c_[0] == "tuple" and len(c_[1]) == 2 and c_[1][1][0] == "bool"):
                bad.append(pc_term(p.pc))
                continue
            same_op = str(c_[1][0]) == str(op) or (c_[1][0][0] == "enum" and op[0] == "enum" and c_[1][0][2] == op[2])
            if not same_op:
                bad.append(pc_term(p.pc))
                continue
            bad.append(f"(and {pc_term(p.pc)} (not (= {c_[1][1][1]} (xor {flag[1]} {neg[1]}))))")
    c = a.discharge("eval_guard_access_clause/comparator-pair", ex, bad,
                    f"binary path of the clause evaluator ({n} calls over all paths): binary_operation receives the clause's OWN operator, unchanged, "
                    "and the flag `operator-level not XOR prefix not` - prefix negation is folded into the flag and into nothing else (no "
                    "operator is swapped for its complement)")
    if c:
        c["replay"] = replay_negation(a)
        c["reproduced"] = c["replay"].get("reproduced", False)
        a.candidates.append(c)


SITES = {
    "C01": [guard_block, type_block, binary_operation, operator_dispatch, match_value, common_operator, contained_in, eq_operation, in_operation, list_map_equality, value_partial_eq, flip_listin, unary_empty_on_expr, flip_queryin, gac_comparator_pair, clause_dispatch, function_args, empty_on_expr_condition],
    "C02": [guard_block, type_block, record_tracker, unary_empty_on_expr, binary_records],
    "C09": [binary_records],
    "C10": [binary_records],
    "C03": [binary_operation, flip_closure, negated_compare_wrapper, parser_clause_wiring, flip_listin, unary_empty_on_expr, flip_queryin, gac_comparator_pair],
    "C13": [flip_closure, operator_dispatch, binary_operation, match_value, common_operator, contained_in, eq_operation, in_operation, list_map_equality, value_partial_eq, flip_listin, flip_queryin],
    "C18": [function_dispatch, elementwise, join_sequence, function_args, substring_offsets, case_converters],
    "C15": [function_args, empty_on_expr_condition],
}
