"""Driver for the solver-based checks (Kani/CBMC over the real crate + MIR->SMT cross-check).

See /verif/DESIGN.md section 1. Nothing here samples: every verdict comes from CBMC's SAT
back end (or z3/cvc5 for the MIR cross-check) over the code compiled from /repo's current
working tree.
"""
import fcntl
import glob
import hashlib
import json
import os
import re
import shutil
import subprocess
import sys
import time

VERIF = os.path.dirname(os.path.dirname(os.path.abspath(__file__)))
REPO = os.environ.get("VERIF_REPO", "/repo")
CACHE = os.path.join(VERIF, ".cache")
VENDOR = os.path.join(CACHE, "vendor")
HARNESS_DIR = os.path.join(VERIF, "harness")
EVIDENCE_DIR = os.environ.get("VERIF_EVIDENCE_DIR", os.path.join(VERIF, "evidence"))
REPLAY_DIR = os.environ.get("VERIF_REPLAY_DIR", os.path.join(VERIF, "replays"))
KNOWN = os.path.join(VERIF, "known_findings.json")
RUSTFLAGS = "-A dangerous_implicit_autorefs -A warnings"
NCPU = os.cpu_count() or 4

TIER_BUDGET = {  # per-harness timeout, whole-run timeout (seconds)
    "quick": (600, 2400),
    "thorough": (2400, 5400),
}

STUBS_DOC = [
    "std::fmt::format -> String::new() (message texts are not checked)",
    "Rc::<T>::drop_slow -> no-op (payload deallocation not modelled)",
    "fancy_regex::Regex::new -> Err / is_match -> nondet where compare_eq is reachable (regex engine outside every claim)",
    "RandomState::new -> fixed keys (0,0) where a HashMap/IndexMap is reachable (hash-seed dependence not examined)",
]


def log(*a):
    print(*a, file=sys.stderr, flush=True)


# ------------------------------------------------------------------------------------------
# registry: annotations inside the harness sources
# ------------------------------------------------------------------------------------------
ANN = re.compile(r"^//@\s+(\S+)\s+(.*?)\s*::\s*(.*)$")


def load_registry():
    """Returns {harness_name: {...}}; each harness file starts with `//! target: <path in repo>`."""
    reg = {}
    for f in sorted(glob.glob(os.path.join(HARNESS_DIR, "*.rs"))):
        target = None
        text = open(f).read()
        for line in text.splitlines():
            m = re.match(r"^//!\s*target:\s*(\S+)", line)
            if m:
                target = m.group(1)
            m = ANN.match(line)
            if m:
                name, kv, desc = m.groups()
                d = {"name": name, "file": f, "target": target, "desc": desc, "props": [], "tier": "quick",
                     "expect": "pass", "fns": []}
                for tok in kv.split():
                    k, _, v = tok.partition("=")
                    if k == "props":
                        d["props"] = v.split(",")
                    elif k == "fns":
                        d["fns"] = v.split(",")
                    else:
                        d[k] = v
                if name in reg:
                    raise SystemExit(f"duplicate harness annotation {name}")
                reg[name] = d
        if target is None:
            raise SystemExit(f"{f}: missing //! target: line")
    return reg


def full_name(h):
    """rules::path_value::verif_<file>::<harness> (needed for --exact; --harness alone is a substring match)"""
    t = h["target"]
    assert t.startswith("guard/src/") and t.endswith(".rs")
    mod = t[len("guard/src/"):-3]
    if mod.endswith("/mod"):
        mod = mod[:-4]
    base = os.path.basename(h["file"])[:-3]
    return mod.replace("/", "::") + f"::verif_{base}::" + h["name"]


def select(reg, prop, tier, only=None):
    out = []
    for h in reg.values():
        # "C08:t" = serves C08 in the thorough tier only
        if prop not in h["props"] and not (tier == "thorough" and prop + ":t" in h["props"]):
            continue
        if only and h["name"] not in only:
            continue
        if tier == "quick" and h["tier"] != "quick" and not only:
            continue
        if h["tier"] == "probe" and not only:      # experimental harnesses run only when named explicitly
            continue
        out.append(h)
    return out


# ------------------------------------------------------------------------------------------
# scratch preparation
# ------------------------------------------------------------------------------------------
class Slot:
    """One of a small pool of scratch copies under /verif/.cache/work; flock'ed while in use."""

    def __init__(self):
        os.makedirs(os.path.join(CACHE, "work"), exist_ok=True)
        self.fd = None
        i = 0
        while True:
            path = os.path.join(CACHE, "work", f"slot{i}")
            os.makedirs(path, exist_ok=True)
            fd = open(os.path.join(path, ".lock"), "w")
            try:
                fcntl.flock(fd, fcntl.LOCK_EX | fcntl.LOCK_NB)
                self.fd, self.path = fd, path
                break
            except OSError:
                fd.close()
                i += 1
                if i >= 6:
                    i = 0
                    time.sleep(5)
        self.src = os.path.join(self.path, "src")
        self.target = os.path.join(self.path, "target")

    def release(self):
        # playback build output is only needed while replaying
        shutil.rmtree(os.path.join(self.src, "target"), ignore_errors=True)
        if self.fd:
            fcntl.flock(self.fd, fcntl.LOCK_UN)
            self.fd.close()


def ensure_vendor():
    if not os.path.exists(os.path.join(VENDOR, ".complete")):
        log("[setup] vendoring dependency sources")
        subprocess.check_call([os.path.join(VERIF, "setup.sh")], stdout=sys.stderr)


def tree_hash(root):
    h = hashlib.sha256()
    for dp, dn, fn in os.walk(os.path.join(root, "guard", "src")):
        dn.sort()
        for f in sorted(fn):
            p = os.path.join(dp, f)
            h.update(p.encode())
            h.update(open(p, "rb").read())
    return h.hexdigest()[:16]


def prepare(slot, harnesses):
    """rsync /repo working tree into the slot, inject the harness modules that are needed."""
    os.makedirs(slot.src, exist_ok=True)
    # content-based sync WITHOUT preserving mtimes: a file whose content changed gets a fresh mtime, so cargo always
    # rebuilds it - also when the change in /repo carries an OLDER mtime than the previous build (restored backup, reverted
    # patch with preserved times), which an mtime-preserving copy would let cargo treat as up to date.
    subprocess.check_call(
        ["rsync", "-rlpc", "--delete", "--exclude", "/target", "--exclude", ".git", "--exclude", "/.cargo",
         "--exclude", "/guard/src/verif_harness", REPO + "/", slot.src + "/"])
    os.makedirs(os.path.join(slot.src, ".cargo"), exist_ok=True)
    with open(os.path.join(slot.src, ".cargo", "config.toml"), "w") as f:
        f.write('[source.crates-io]\nreplace-with = "vendored-sources"\n'
                f'[source.vendored-sources]\ndirectory = "{VENDOR}"\n[net]\noffline = true\n')
    hdir = os.path.join(slot.src, "guard", "src", "verif_harness")
    shutil.rmtree(hdir, ignore_errors=True)
    os.makedirs(hdir)
    shutil.copy(os.path.join(HARNESS_DIR, "common", "stubs.rs"), os.path.join(hdir, "stubs.rs"))
    injected = {}
    for h in harnesses:
        injected.setdefault(h["file"], h["target"])
    # `//! requires: other.rs` = sibling harness module whose helpers are reused
    for hf in list(injected):
        for line in open(hf).read().splitlines()[:10]:
            m = re.match(r"^//!\s*requires:\s*(\S+)", line)
            if m:
                dep = os.path.join(HARNESS_DIR, m.group(1))
                tgt = None
                for l2 in open(dep).read().splitlines()[:10]:
                    m2 = re.match(r"^//!\s*target:\s*(\S+)", l2)
                    if m2:
                        tgt = m2.group(1)
                injected.setdefault(dep, tgt)
    for hf, target in injected.items():
        base = os.path.basename(hf)
        dst = os.path.join(hdir, base)
        shutil.copy(hf, dst)
        tpath = os.path.join(slot.src, target)
        if not os.path.exists(tpath):
            raise Inconclusive(f"target module {target} of harness file {base} no longer exists")
        modname = "verif_" + base[:-3]
        with open(tpath, "a") as f:
            f.write(f'\n#[cfg(kani)] #[path = "{dst}"] mod {modname};\n')
    # crate-level: allocator_api for the Rc::drop_slow stub signature + the shared stubs module
    lib = os.path.join(slot.src, "guard", "src", "lib.rs")
    txt = open(lib).read()
    with open(lib, "w") as f:
        f.write("#![cfg_attr(kani, feature(allocator_api))]\n" + txt +
                f'\n#[cfg(kani)] #[path = "{os.path.join(hdir, "stubs.rs")}"] pub(crate) mod verif_stubs;\n')
    return hdir


class Inconclusive(Exception):
    pass


# ------------------------------------------------------------------------------------------
# running kani and parsing its terse output
# ------------------------------------------------------------------------------------------
def kani_env():
    env = dict(os.environ)
    env["RUSTFLAGS"] = RUSTFLAGS
    env["CARGO_NET_OFFLINE"] = "true"
    env.pop("RUSTUP_TOOLCHAIN", None)
    return env


def run_kani(slot, names, per_harness_timeout, total_timeout, extra=(), jobs=None, vmem_kb=14680064):
    jobs = jobs or max(1, min(NCPU, len(names)))
    fmt = os.environ.get("VERIF_KANI_FORMAT", "terse")      # "regular" for debugging a single harness (forces -j 1)
    if fmt != "terse":
        jobs = 1
    cmd = ["cargo", "kani", "--lib", "-Z", "stubbing", "-Z", "unstable-options",
           "--target-dir", slot.target, "--output-format", fmt,
           "--harness-timeout", f"{per_harness_timeout}s"]
    if jobs > 1:
        cmd += ["-j", str(jobs)]
    for n in names:
        cmd += ["--harness", n]
    cmd += ["--exact"]
    cmd += list(extra)
    t0 = time.time()
    # memory guard: 14 GB of address space per process (CBMC winners use 0.8-3 GB)
    shell = f"ulimit -v {vmem_kb}; exec " + " ".join(map(shquote, cmd))
    try:
        p = subprocess.run(["bash", "-c", shell], cwd=os.path.join(slot.src, "guard"), env=kani_env(),
                           stdout=subprocess.PIPE, stderr=subprocess.STDOUT, timeout=total_timeout, text=True,
                           errors="replace")
        out, rc = p.stdout, p.returncode
    except subprocess.TimeoutExpired as e:
        out = (e.stdout or b"")
        if isinstance(out, bytes):
            out = out.decode(errors="replace")
        out += "\n[driver] TOTAL TIMEOUT\n"
        rc = -9
        subprocess.run(["pkill", "-f", slot.target], check=False)
    return out, rc, time.time() - t0


def shquote(s):
    return "'" + s.replace("'", "'\\''") + "'"


RES_CHECKS = re.compile(r"\*\* (\d+) of (\d+) failed(?: \((.*?)\))?")
RES_COVER = re.compile(r"\*\* (\d+) of (\d+) cover properties satisfied")


def parse_terse(out, names):
    """Returns {short_name: {status, failed_checks:[{desc,file,line,func}], n_checks, n_failed, covers_sat,
    covers_total, time}}. status in SUCCESSFUL / FAILED / TIMEOUT / ERROR / MISSING."""
    res = {n: {"status": "MISSING", "failed_checks": [], "n_checks": 0, "n_failed": 0, "covers_sat": 0,
               "covers_total": 0, "time": None, "unwind_fail": False, "full_name": None} for n in names}
    cur = {}  # thread -> harness short name
    active = None
    lines = out.splitlines()
    i = 0

    def short(full):
        return full.split("::")[-1]

    pending_fail = None
    while i < len(lines):
        ln = lines[i]
        m = re.match(r"^(?:Thread (\d+): )?Checking harness (\S+?)\.\.\.", ln)
        if m:
            th = m.group(1) or "0"
            s = short(m.group(2))
            cur[th] = s
            if s in res:
                res[s]["full_name"] = m.group(2)
            if m.group(1) is None:
                active = s
            i += 1
            continue
        m = re.match(r"^Thread (\d+):\s*$", ln)
        if m:
            active = cur.get(m.group(1))
            i += 1
            continue
        r = res.get(active) if active else None
        if r is not None:
            m = RES_CHECKS.search(ln)
            if m:
                r["n_failed"], r["n_checks"] = int(m.group(1)), int(m.group(2))
            m = RES_COVER.search(ln)
            if m:
                r["covers_sat"], r["covers_total"] = int(m.group(1)), int(m.group(2))
            m = re.match(r'^Failed Checks: (.*)$', ln)
            if m:
                pending_fail = {"desc": m.group(1).strip().strip('"'), "file": None, "line": None, "func": None}
                r["failed_checks"].append(pending_fail)
                if "unwinding assertion" in pending_fail["desc"]:
                    r["unwind_fail"] = True
            m = re.match(r'^\s*File: "(.*?)", line (\d+), in (\S+)', ln)
            if m and pending_fail is not None:
                pending_fail.update(file=m.group(1), line=int(m.group(2)), func=m.group(3))
            if ln.startswith("VERIFICATION:- SUCCESSFUL"):
                r["status"] = "SUCCESSFUL"
            elif ln.startswith("VERIFICATION:- FAILED") and r["status"] not in ("ERROR", "TIMEOUT"):
                r["status"] = "FAILED" if r["failed_checks"] else "ERROR"
            m = re.match(r"^Verification Time: ([\d.]+)s", ln)
            if m:
                r["time"] = float(m.group(1))
            if "CBMC timed out" in ln or "timed out" in ln.lower() and "harness" in ln.lower():
                r["status"] = "TIMEOUT"
            if ("Status: ERROR" in ln or "out of memory" in ln.lower() or "CBMC failed" in ln or "bad_alloc" in ln
                    or "CBMC crashed" in ln):
                r["status"] = "ERROR"
        i += 1
    return res


# ------------------------------------------------------------------------------------------
# counterexample replay
# ------------------------------------------------------------------------------------------
def extract_playback_tests(out):
    """Returns list of (test_fn_name, source) from `--concrete-playback=print` output."""
    tests, seen = [], set()
    for m in re.finditer(r"```\n(.*?)```", out, re.S):
        src = m.group(1)
        fm = re.search(r"fn (kani_concrete_playback_\w+)\(", src)
        # Kani prints the same test once per failed check / satisfied cover that shares the assignment: keep one (a duplicate
        # definition does not compile, and an uncompilable replay is not a reproduction)
        if fm and fm.group(1) not in seen:
            seen.add(fm.group(1))
            tests.append((fm.group(1), src))
    return tests


def native_replay(slot, hdir, harness, tests):
    """Append the playback tests to the scratch copy of the harness file and run them natively (no stubs,
    real std, real regex, dev profile = the profile Kani models) with `cargo kani playback`.
    (`cargo kani playback` of Kani 0.68 has no --release switch; release-profile behaviour is not replayed.)
    Returns (reproduced, logs)."""
    dst = os.path.join(hdir, os.path.basename(harness["file"]))
    orig = open(dst).read()
    with open(dst, "w") as f:
        f.write(orig + "\n" + "\n".join(src for _, src in tests) + "\n")
    reproduced, logs = False, []
    try:
        flt = f"kani_concrete_playback_{harness['name']}_"
        cmd = ["cargo", "kani", "playback", "-Z", "concrete-playback", "--lib", "--", flt]
        p = subprocess.run(cmd, cwd=os.path.join(slot.src, "guard"), env=kani_env(), stdout=subprocess.PIPE,
                           stderr=subprocess.STDOUT, text=True, errors="replace", timeout=1800)
        keep = [l for l in p.stdout.splitlines() if re.search(r"^test |panicked at|^test result|^error", l)]
        pan = re.findall(r"panicked at [^\n]*\n[^\n]*", p.stdout)
        logs.append({"tests": [t for t, _ in tests], "profile": "dev", "exit": p.returncode,
                     "summary": keep[:40], "panics": pan[:10]})
        if re.search(r"test result: FAILED", p.stdout):
            reproduced = True
    finally:
        with open(dst, "w") as f:
            f.write(orig)
    return reproduced, logs


def load_known():
    if not os.path.exists(KNOWN):
        return {"known": [], "fixed": []}
    return json.load(open(KNOWN))


def finding_key(h, fc):
    func = (fc.get("func") or "").split("::")[-1]
    desc = re.sub(r"\d+", "N", fc.get("desc") or "")
    return f"{h['name']}|{func}|{desc}"


# ------------------------------------------------------------------------------------------
# main
# ------------------------------------------------------------------------------------------
def main(argv):
    import argparse
    ap = argparse.ArgumentParser()
    ap.add_argument("prop")
    ap.add_argument("--tier", default=os.environ.get("VERIF_TIER", "quick"), choices=["quick", "thorough"])
    ap.add_argument("--replay")
    ap.add_argument("--only", nargs="*")
    ap.add_argument("--no-smt", action="store_true")
    a = ap.parse_args(argv)
    seed = int(os.environ.get("VERIF_SEED", "0") or 0)
    prop = a.prop
    if a.replay:
        return do_replay(prop, a.replay)
    t0 = time.time()
    reg = load_registry()
    hs = select(reg, prop, a.tier, a.only)
    if not hs:
        import miragg
        if not miragg.has_sites(prop) or a.only:
            print(f"no harnesses registered for {prop} at tier {a.tier}")
            return 2
        # property decided by the MIR engine alone (no function of it is within CBMC's reach)
        ensure_vendor()
        slot = Slot()
        try:
            prepare(slot, [])
            return finish(prop, a.tier, seed, t0, [], {}, [], [], [], tree_hash(slot.src), slot, a)
        finally:
            slot.release()
    # VERIF_SEED only permutes scheduling order (the technique makes no random choices)
    import random
    random.Random(seed).shuffle(hs)
    ensure_vendor()
    slot = Slot()
    try:
        return run_property(slot, prop, a.tier, seed, hs, t0, a)
    finally:
        slot.release()


def run_property(slot, prop, tier, seed, hs, t0, a):
    per_h, total = TIER_BUDGET[tier]
    byname = {h["name"]: h for h in hs}
    problems = []      # inconclusive reasons
    violations = []    # (harness, failed checks, replay path)
    known_lines = []
    try:
        hdir = prepare(slot, hs)
    except Inconclusive as e:
        return finish(prop, tier, seed, t0, hs, {}, [str(e)], [], [], None, slot)
    src_hash = tree_hash(slot.src)
    out, rc, wall = run_kani(slot, [full_name(h) for h in hs], per_h, total)
    os.makedirs(os.path.join(CACHE, "logs"), exist_ok=True)
    with open(os.path.join(CACHE, "logs", f"{prop}.{tier}.kani.log"), "w") as f:
        f.write(out)
    res = parse_terse(out, list(byname))
    if "error: could not compile" in out or re.search(r"^error(\[E\d+\])?:", out, re.M) and not any(
            r["status"] != "MISSING" for r in res.values()):
        errs = [l for l in out.splitlines() if l.startswith("error")][:8]
        # which harness files do the compile errors point into? (a renamed/removed private item breaks only the
        # family that names it): drop those files and run the rest once more
        broken = set(re.findall(r"-->\s+\S*?/verif_harness/(\w+\.rs):", out))
        broken_paths = {os.path.join(HARNESS_DIR, b) for b in broken}
        # files that `require` a broken file are broken too
        for h in hs:
            for line in open(h["file"]).read().splitlines()[:10]:
                m = re.match(r"^//!\s*requires:\s*(\S+)", line)
                if m and os.path.join(HARNESS_DIR, m.group(1)) in broken_paths:
                    broken_paths.add(h["file"])
        rest = [h for h in hs if h["file"] not in broken_paths]
        dropped = [h for h in hs if h["file"] in broken_paths]
        if broken and rest and not getattr(a, "_retried", False):
            a._retried = True
            log(f"[{prop}] harness file(s) {sorted(broken)} do not compile against this tree; re-running the other families")
            rc2 = run_property(slot, prop, tier, seed, rest, t0, a)
            for h in dropped:
                print(f"INCONCLUSIVE: {h['name']}: harness file {os.path.basename(h['file'])} does not compile against the current tree "
                      f"({'; '.join(errs[:2])})")
            # a violation found by the remaining families stands; otherwise the run is inconclusive, never a pass
            return 1 if rc2 == 1 else 2
        problems.append("harness/crate does not compile under kani against the current tree: " + " | ".join(errs))
    known = load_known()
    failing = []
    for n, r in res.items():
        h = byname[n]
        if r["status"] == "MISSING":
            if "TOTAL TIMEOUT" in out or rc == -9:
                r["status"] = "TIMEOUT"
            problems.append(f"{n}: no verdict ({r['status']})")
            continue
        if r["status"] in ("TIMEOUT", "ERROR"):
            problems.append(f"{n}: {r['status']} (not a pass)")
            continue
        if h["expect"] == "fail":
            ok = (r["status"] == "FAILED" and any("twin-reached" in fc["desc"] for fc in r["failed_checks"]))
            if not ok:
                problems.append(f"{n}: vacuity twin did not fail at its final assert -> harness family is vacuous")
            others = [fc for fc in r["failed_checks"] if "twin-reached" not in fc["desc"]]
            if others:
                # a twin shares the set-up of its family: any other failed check is a real failure
                r["_extra_fail"] = others
            else:
                continue
        if r["status"] == "SUCCESSFUL":
            if r["covers_total"] and r["covers_sat"] < r["covers_total"]:
                problems.append(f"{n}: only {r['covers_sat']}/{r['covers_total']} cover points reachable (vacuity)")
            continue
        # FAILED harness that was expected to pass (or twin with extra failures)
        fcs = r.get("_extra_fail") or r["failed_checks"]
        if r["unwind_fail"] and all("unwinding" in fc["desc"] for fc in fcs):
            problems.append(f"{n}: unwinding assertion failed (bound too small for current code) - inconclusive")
            continue
        fcs = [fc for fc in fcs if "unwinding" not in fc["desc"]]
        failing.append((n, fcs))
    # counterexamples -> concrete playback -> native replay; batched, at most MAX_REPLAY harnesses
    MAX_REPLAY = 3
    if failing:
        todo = failing[:MAX_REPLAY]
        log(f"[{prop}] FAILED: {[(n, [fc['desc'] for fc in fcs][:3]) for n, fcs in failing]}; extracting counterexamples "
            f"for {[n for n, _ in todo]}")
        pout, prc, _ = run_kani(slot, [full_name(byname[n]) for n, _ in todo], per_h, per_h + 600,
                                extra=["-Z", "concrete-playback", "--concrete-playback=print"], jobs=1,
                                vmem_kb=41943040)   # kani-driver holds the whole CBMC trace in memory here
        with open(os.path.join(CACHE, "logs", f"{prop}.{tier}.playback.log"), "w") as f:
            f.write(pout)
        all_tests = extract_playback_tests(pout)
        any_reproduced = False
        for n, fcs in todo:
            h = byname[n]
            tests = [(t, src) for t, src in all_tests if t.startswith(f"kani_concrete_playback_{n}_")]
            reproduced, logs = (False, [])
            if tests:
                reproduced, logs = native_replay(slot, hdir, h, tests)
            else:
                logs = [{"note": "kani produced no concrete playback test"}]
            os.makedirs(os.path.join(REPLAY_DIR, prop), exist_ok=True)
            rp = os.path.join(REPLAY_DIR, prop, f"{n}.json")
            json.dump({"property": prop, "harness": n, "harness_file": h["file"], "target": h["target"],
                       "failed_checks": fcs, "playback_tests": [{"name": t, "source": s} for t, s in tests],
                       "native_replay": logs, "reproduced_dev": reproduced,
                       "also_failed_not_replayed": [m for m, _ in failing[MAX_REPLAY:]],
                       "tree_hash": src_hash, "desc": h["desc"]}, open(rp, "w"), indent=1)
            if not reproduced:
                problems.append(f"{n}: counterexample did not reproduce natively (encoding/stub artefact?) - see {rp}")
                continue
            any_reproduced = True
            keys = [finding_key(h, fc) for fc in fcs]
            listed = [k for k in keys if any(k == e["key"] and prop in e["properties"] for e in known["known"])]
            if len(listed) == len(keys):
                for k in listed:
                    e = next(e for e in known["known"] if e["key"] == k)
                    known_lines.append(f"KNOWN-FINDING: property={prop} {e['what']}")
                res[n]["known"] = True
            else:
                violations.append((n, fcs, rp))
        for n, fcs in failing[MAX_REPLAY:]:
            problems.append(f"{n}: FAILED {[fc['desc'] for fc in fcs][:2]} (not replayed: replay budget is {MAX_REPLAY} harnesses per run)")
    return finish(prop, tier, seed, t0, hs, res, problems, violations, known_lines, src_hash, slot, a)


def finish(prop, tier, seed, t0, hs, res, problems, violations, known_lines, src_hash, slot, a=None):
    smt = None
    if a is not None and not a.no_smt:
        try:
            import mirsmt
            smt = mirsmt.run_for_property(prop, slot.src, tier)
        except Exception as e:  # the cross-check must never turn into a false pass or a false alarm
            smt = {"status": "error", "error": repr(e)}
        if smt and smt.get("status") == "violation":
            os.makedirs(os.path.join(REPLAY_DIR, prop), exist_ok=True)
            rp = os.path.join(REPLAY_DIR, prop, "mirsmt.json")
            json.dump(smt, open(rp, "w"), indent=1)
            known = load_known()
            for f in smt["failures"]:
                key = "mirsmt|" + f["obligation"]
                if f.get("reproduced") or violations:
                    # natively replayed (own replay recipe, or the Kani harness over the same function was)
                    e = next((e for e in known["known"] if e["key"] == key and prop in e["properties"]), None)
                    if e:
                        known_lines.append(f"KNOWN-FINDING: property={prop} {e['what']}")
                    else:
                        violations.append(("mirsmt:" + f["obligation"], [f], rp))
                else:
                    problems.append(f"MIR->SMT cross-check refuted {f['obligation']} but the counterexample was not "
                                    f"reproduced natively (see {rp}) - inconclusive")
        elif smt and smt.get("status") in ("error", "inconclusive"):
            log(f"[{prop}] MIR->SMT cross-check inconclusive: {smt.get('error') or smt.get('reason')}")
            problems.append(f"MIR->SMT obligations not decided ({smt.get('error') or smt.get('reason')}) - inconclusive, never a pass")
    write_evidence(prop, tier, seed, t0, hs, res, problems, violations, known_lines, src_hash, smt)
    for l in known_lines:
        print(l)
    for n, fcs, rp in violations:
        print(f"VIOLATION property={prop} replay={rp}")
    npass = sum(1 for h in hs if h["expect"] == "pass" and res.get(h["name"], {}).get("status") == "SUCCESSFUL")
    print(f"[{prop}/{tier}] harnesses={len(hs)} passed={npass} violations={len(violations)} "
          f"inconclusive={len(problems)} wall={time.time() - t0:.0f}s")
    for p in problems:
        print("INCONCLUSIVE:", p)
    if violations:
        return 1
    if problems:
        return 2
    return 0


def write_evidence(prop, tier, seed, t0, hs, res, problems, violations, known_lines, src_hash, smt):
    os.makedirs(EVIDENCE_DIR, exist_ok=True)
    samples, fns = [], set()
    n_queries = 0
    solver_s = 0.0
    concluded = 0
    for h in hs:
        r = res.get(h["name"], {})
        n_queries += r.get("n_checks", 0) + r.get("covers_total", 0)
        solver_s += r.get("time") or 0.0
        ok = (h["expect"] == "pass" and r.get("status") == "SUCCESSFUL" and r.get("n_checks", 0) > 0
              and r.get("covers_sat", 0) == r.get("covers_total", 0))
        if ok:
            concluded += 1
        fns.update(h["fns"])
        samples.append({"harness": h["name"], "module": h["target"], "expect": h["expect"], "tier": h["tier"],
                        "bound_and_oracle": h["desc"], "functions": h["fns"], "verdict": r.get("status"),
                        "checks": r.get("n_checks"), "failed": r.get("n_failed"),
                        "covers": f"{r.get('covers_sat')}/{r.get('covers_total')}",
                        "cbmc_seconds": r.get("time"),
                        "failed_checks": [fc["desc"] for fc in r.get("failed_checks", [])][:5]})
    for o in (smt or {}).get("obligations", []) or []:
        samples.append({"mir_obligation": o.get("obligation"), "statement": o.get("describe"), "verdicts": o.get("verdicts"),
                        "status": o.get("status"), "paths_enumerated": o.get("paths"), "unroll": o.get("unroll"),
                        "cut_by_unroll_bound": o.get("cut_by_unroll_bound"), "path_terms": o.get("path_terms")})
    fns.update((smt or {}).get("functions", []) or [])
    ev = {
        "property_id": prop, "tier": tier, "seed": seed, "level": "model_checking",
        "coverage": {
            "evaluations": n_queries + (smt or {}).get("queries", 0),
            "distinct_nontrivial": concluded + (smt or {}).get("obligations_discharged", 0),
            "rule": "evaluations = verification conditions + cover points decided by CBMC/CaDiCaL over all harnesses of "
                    "this run (+ SMT queries of the MIR cross-check); distinct_nontrivial = number of distinct "
                    "expect=pass harnesses that ended SUCCESSFUL with >=1 reachable check, every cover point "
                    "satisfiable and all unwinding assertions proved (+ MIR->SMT obligations proved unsat by both "
                    "z3 and cvc5). Each harness is one symbolic query family over ALL inputs in its stated bound, "
                    "not a sampled input.",
            "samples": samples,
            "exhaustive": False,
            "functions_encoded": sorted(fns),
            "stubs": STUBS_DOC,
            "solver": "CBMC 6.11.0 (CaDiCaL) via Kani 0.68.0; unwinding assertions on; MIR obligations: z3 4.8.12 and cvc5 1.0 (must agree)",
            "solver_seconds": round(solver_s, 2),
            "queries_discharged": n_queries,
            "inconclusive": problems,
            "known_findings_printed": known_lines,
            "tree_hash_guard_src": src_hash,
            "mir_smt_crosscheck": smt,
        },
        "assumptions": [
            "bounds are those stated per harness in coverage.samples[].bound_and_oracle; nothing outside them is claimed",
            "stubs listed in coverage.stubs are part of the claim",
            "Kani models the dev profile (overflow checks on); rustc nightly-2026-08-21 MIR, kani-compiler 0.68, CBMC 6.11 are trusted",
            "harnesses are injected as #[cfg(kani)] child modules into a scratch copy of /repo's working tree; the analysed functions are the repository's own, unmodified",
        ],
        "wall_s": round(time.time() - t0, 1),
        "violations": len(violations),
    }
    json.dump(ev, open(os.path.join(EVIDENCE_DIR, f"{prop}.json"), "w"), indent=1)


def do_replay(prop, path):
    """Re-run a stored counterexample natively against /repo's current tree."""
    d = json.load(open(path))
    if d.get("harness") is None and d.get("status") == "violation":
        # a MIR-engine counterexample: re-derive the obligation from the CURRENT tree and re-run its native replay recipe
        import mirsmt
        mirsmt.replay(d)
        want = {f["obligation"] for f in d.get("failures", [])}
        ensure_vendor()
        slot = Slot()
        try:
            prepare(slot, [])
            cur = mirsmt.run_for_property(prop, slot.src, "quick") or {}
        finally:
            slot.release()
        again = [f for f in cur.get("failures", []) or [] if f["obligation"] in want and f.get("reproduced")]
        for f in again:
            print("  still refuted and natively reproduced on the current tree:", f["obligation"])
            print("   ", json.dumps(f.get("replay") or f.get("native_replay") or {})[:600])
        if again:
            print(f"VIOLATION property={prop} replay={path}")
            return 1
        print("the stored counterexample's obligation(s) hold on the current tree (or no longer reproduce natively)")
        return 0
    reg = load_registry()
    h = reg.get(d["harness"])
    if not h:
        print("unknown harness", d["harness"])
        return 2
    ensure_vendor()
    slot = Slot()
    try:
        hdir = prepare(slot, [h])
        tests = [(t["name"], t["source"]) for t in d["playback_tests"]]
        rep, logs = native_replay(slot, hdir, h, tests)
        for l in logs:
            print("\n".join(l.get("summary", []) + l.get("panics", [])))
        if rep:
            print(f"VIOLATION property={prop} replay={path}")
            return 1
        print("counterexample does not reproduce on the current tree")
        return 0
    finally:
        slot.release()
