"""Aggregation-site checks on MIR (engine: mirexec.Exec, solvers: z3 + cvc5 via mirsmt.Obligations).

Each check enumerates the paths of one real function (loops unrolled twice, callees modelled by symbolic
results), derives from every path (a) its structural event sequence and (b) symbolic result/record values, and
asks the solvers whether some path can end in a state that contradicts the documented aggregation rule. A
satisfiable answer is a CANDIDATE; it becomes a violation only after a replay through the real CLI (built from the
scratch copy) on inputs synthesised from the solver's model reproduces the wrong verdict.
"""
import json, os, re, shutil, subprocess, tempfile
import mirsmt, mirexec
from mirsmt import Untranslatable, pc_term, find_fn

PASS, FAIL, SKIP = 0, 1, 2   # re-derived from the source by status_tags()


def status_tags(src):
    vs = mirsmt.status_enum(src)
    return vs


def ite_fold(tags, P, F, S):
    """FAIL if any FAIL else PASS if any PASS else SKIP over a list of SMT tag terms"""
    if not tags:
        return str(S)
    anyf = "(or " + " ".join(f"(= {t} {F})" for t in tags) + ")"
    anyp = "(or " + " ".join(f"(= {t} {P})" for t in tags) + ")"
    return f"(ite {anyf} {F} (ite {anyp} {P} {S}))"


def calls(path, name):
    return [e for e in path.events if e[0] == "call" and e[1] == name]


def record_status(val):
    """status tag term carried by a RecordType value built in the function, plus the variant name"""
    if val[0] != "variant":
        return None, None
    variant, payload = val[2], val[3]
    if not payload:
        return variant, None
    p0 = payload[0]
    if p0[0] == "enum":
        return variant, p0[2]
    if p0[0] == "struct":
        st = p0[2].get("status")
        if st and st[0] == "enum":
            return variant, st[2]
    return variant, None


def rec_ok(path):
    """all start_record / end_record calls on the path returned Ok (a failing recorder aborts through `?`)"""
    ts = [e[3][2] for e in calls(path, "start_record") + calls(path, "end_record") if e[3][0] == "enum"]
    return "(and " + " ".join(f"(= {t} 0)" for t in ts) + ")" if ts else "true"


def ret_ok_status(path):
    r = path.ret
    if not r or r[0] != "enum" or r[1] != "Result":
        return None, None
    ok = r[3].get("Ok")
    return r[2], (ok[2] if ok and ok[0] == "enum" else None)


class Agg:
    def __init__(self, mir, src, ob, tier="quick"):
        self.mir, self.src, self.ob, self.tier = mir, src, ob, tier
        self.vs = status_tags(src)
        self.P, self.F, self.S = self.vs.index("PASS"), self.vs.index("FAIL"), self.vs.index("SKIP")
        self.enums = {"Status": self.vs}
        self.candidates = []
        self.fns = []
        self.npaths = 0

    def exec(self, fn_re, models, log=(), unroll=2, init_env=None, max_paths=4000, first_arg_re="", prep=None, deepen=True):
        text = find_fn(self.mir, fn_re, first_arg_re)
        m = dict(mirexec.COMMON_MODELS)
        m.update(models)
        if self.tier == "thorough" and deepen:
            # deeper bound: one more loop iteration per path (collections of up to unroll+1 elements), more paths allowed
            unroll, max_paths = unroll + 1, max_paths * 20
        base_unroll, base_paths = (unroll - 1, max_paths // 20) if (self.tier == "thorough" and deepen) else (unroll, max_paths)
        base_env = init_env
        for u, mp in ((unroll, max_paths), (base_unroll, base_paths)):
            ex = mirexec.Exec(text, self.enums, mirsmt.consts_of(self.mir), m, set(log), unroll=u, mir=self.mir, max_paths=mp)
            env = base_env
            if prep:
                # directed execution: the caller fixes some discriminants / arguments before the paths are enumerated
                env = dict(base_env or {}, **(prep(ex) or {}))
            try:
                ex.run(env)
            except Untranslatable as e:
                if "too many paths" in str(e) and (u, mp) != (base_unroll, base_paths):
                    # the deeper bound of the thorough tier does not fit: fall back to the quick tier's bound (recorded in the evidence:
                    # the obligation's `unroll` field says which bound was decided)
                    self.fallbacks = getattr(self, "fallbacks", [])
                    self.fallbacks.append(fn_re)
                    continue
                raise
            break
        self.npaths += len(ex.paths)
        return ex

    def note_cut(self, label, ex):
        """paths cut by the unroll bound are outside the claim: recorded, never silently dropped"""
        self.cuts = getattr(self, "cuts", {})
        self.cuts[label] = {"paths": len(ex.paths), "cut_by_unroll_bound": ex.cut, "unroll": ex.unroll}

    def replay_cases(self, exe, data, cases, prefix=""):
        """native replay recipe: single-clause rules with their documented status on a fixed document; reproduced =
        the real CLI (built from the tree under analysis) reports a different status for at least one of them"""
        out = []
        for clause, exp in cases:
            rules = prefix + f"rule t {{\n  {clause}\n}}\n"
            rc, rep, err = self.run_structured(exe, rules, [data])
            if not (rep and isinstance(rep, list) and rep):
                # a crash is an observation (and a mismatch with any expected status); anything else means the recipe did not run
                crashed = rc == 101 or "panicked" in (err or "")
                # no report and no crash: the run ended with an evaluation / parse error. On the unchanged tree every case of every
                # recipe yields a report (tools/selftest_replays.py fails otherwise), so an error is an observation too
                out.append({"clause": clause, "expected": exp, "observed": "PANIC (exit %s)" % rc if crashed else "ERROR (exit %s)" % rc, "exit": rc,
                            "stderr": (err or "")[-200:]})
                continue
            r = rep[0]
            got = "PASS" if "t" in r.get("compliant", []) else ("SKIP" if "t" in r.get("not_applicable", []) else "FAIL")
            out.append({"clause": clause, "expected": exp, "observed": got})
        badc = [o for o in out if o["observed"] is not None and o["expected"] != o["observed"]]
        return {"reproduced": bool(badc), "data": data, "mismatches": badc, "cases": out}

    def discharge(self, name, ex, bad_terms, describe, witness=True):
        """bad_terms: list of SMT terms, each = (path condition AND NOT good); all must be unsat"""
        if not bad_terms:
            bad_terms = ["false"]
        if len(bad_terms) > 150:
            st = self.ob.check_many(name, ex.decls, ex.side, bad_terms, describe)
        else:
            st = self.ob.check(name, ex.decls, ex.side, "(or " + " ".join(bad_terms) + ")", describe)
        item = self.ob.items[-1]
        item["paths"], item["cut_by_unroll_bound"], item["unroll"] = len(ex.paths), ex.cut, ex.unroll
        # vacuity guard on the obligation's own counter: descriptions state how many visits / comparisons / evaluations the rule was
        # checked on ("(12 rule visits)"); zero means the code was restructured so that the rule no longer talks about anything
        # (this happened once: a collect() between a collection and its loop). Counters of things that SHOULD be absent are exempt.
        m0 = re.search(r"\((\d+) [a-z`]", describe)
        if st == "proved" and m0 and int(m0.group(1)) == 0 and not any(w in describe[m0.start():m0.start() + 60] for w in ("unwrap", "delegations", "index events")):
            item["status"] = "inconclusive"
            item["describe"] = "VACUOUS (the rule was checked on 0 occurrences: the code no longer has the shape the obligation reads) - " + describe
            return None
        if st == "proved" and witness:
            # vacuity witness: the side conditions are consistent and at least one Ok-returning path is feasible
            oks = [pc_term(p.pc) for p in ex.paths if p.outcome == "return" or p.outcome.startswith("stop")]
            self.ob.witness_many(name + "/witness", ex.decls, ex.side, oks,
                                 "vacuity witness: some returning path of the encoded function is feasible under the side conditions")
        return item if st == "refuted" else None

    # ------------------------------------------------------------------------------------------
    def eval_rules_file(self):
        ex = self.exec(r"(?:(?:rules::)?eval::)?eval_rules_file", {"eval_rule": mirexec.m_result_status}, log=("rule_status",))
        self.fns.append("rules::eval::eval_rules_file")
        P, F, S = self.P, self.F, self.S
        bad, witness = [], []
        for p in ex.paths:
            rules = calls(p, "eval_rule")
            nexts = calls(p, "next")
            ends = calls(p, "end_record")
            rtag, rst = ret_ok_status(p)
            if rtag is None:
                bad.append(pc_term(p.pc))
                continue
            sts = [r[3][3]["Ok"][2] for r in rules]
            exp = ite_fold(sts, P, F, S)
            # structure: every loop iteration (next() == Some) evaluates exactly one rule through eval_rule;
            # other ways of obtaining a rule's status (e.g. the rule_status cache) write no RuleCheck record
            iters = "(+ 0 " + " ".join(f"(ite (= {n[3][2]} 1) 1 0)" for n in nexts) + ")" if nexts else "0"
            struct_ok = f"(= {iters} {len(rules)})" if not calls(p, "rule_status") else "false"
            good_ok = "false"
            if rst is not None and ends:
                variant, recst = record_status(ends[-1][2][2]) if len(ends[-1][2]) > 2 else (None, None)
                rec_ok = f"(= {recst} {exp})" if (variant == "FileCheck" and recst is not None) else "false"
                good_ok = f"(and (= {rst} {exp}) {rec_ok} {struct_ok})"
            # a path that returns Ok must satisfy good_ok; a path that returns Err must be caused by an Err of a callee
            callee_errs = [f"(= {r[3][2]} 1)" for r in rules] + [f"(= {e[3][2]} 1)" for e in calls(p, "start_record") + ends
                                                               if e[3][0] == "enum"]
            some_err = "(or " + " ".join(callee_errs) + ")" if callee_errs else "false"
            good = f"(ite (= {rtag} 0) {good_ok} {some_err})"
            bad.append(f"(and {pc_term(p.pc)} (not {good}))")
            witness.append(p)
        c = self.discharge("eval_rules_file/aggregate", ex, bad,
                           "eval_rules_file, <= 2 rules (loop unrolled twice), eval_rule results symbolic: returns Ok(FAIL if a rule "
                           "failed, else PASS if one passed, else SKIP); the closing FileCheck record carries that status; every "
                           "iteration evaluates its rule through eval_rule exactly once; Err only if a callee returned Err")
        if c:
            c["replay"] = self.replay_rules_file(c)
            c["reproduced"] = c["replay"].get("reproduced", False)
            self.candidates.append(c)

    # ------------------------------------------------------------------------------------------
    def eval_rule(self):
        ex = self.exec(r"(?:(?:rules::)?eval::)?eval_rule",
                       {"eval_conjunction_clauses": mirexec.m_result_status, "eval_general_block_clause": mirexec.m_result_status})
        self.fns.append("rules::eval::eval_rule")
        P, F, S = self.P, self.F, self.S
        bad = []
        for p in ex.paths:
            conds = calls(p, "eval_conjunction_clauses")
            bodies = calls(p, "eval_general_block_clause")
            ends = calls(p, "end_record")
            rtag, rst = ret_ok_status(p)
            if rtag is None or len(conds) > 1 or len(bodies) > 1:
                bad.append(pc_term(p.pc))
                continue
            recs = [record_status(e[2][2]) if len(e[2]) > 2 else (None, None) for e in ends]
            rulecheck = [st for v, st in recs if v == "RuleCheck"]
            rulecond = [st for v, st in recs if v == "RuleCondition"]
            parts = []
            if conds:
                ctag, cst = conds[0][3][2], conds[0][3][3]["Ok"][2]
                cond_pass = f"(and (= {ctag} 0) (= {cst} {P}))"
                if bodies:
                    # body evaluated => the condition passed
                    parts.append(cond_pass)
                else:
                    # body not evaluated => condition did not pass; Ok result must then be SKIP
                    parts.append(f"(not {cond_pass})")
                    parts.append(f"(=> (= {rtag} 0) (= {rst} {S}))" if rst is not None else f"(not (= {rtag} 0))")
                if rulecond and rulecond[0] is not None:
                    parts.append(f"(=> (= {ctag} 0) (= {rulecond[0]} {cst}))")
            if bodies:
                btag, bst = bodies[0][3][2], bodies[0][3][3]["Ok"][2]
                parts.append(f"(=> (and (= {rtag} 0) (= {btag} 0)) (= {rst} {bst}))" if rst is not None else f"(not (= {rtag} 0))")
                parts.append(f"(=> (= {btag} 1) (= {rtag} 1))")
            if not conds and not bodies:
                parts.append(f"(= {rtag} 1)")      # nothing evaluated: only possible when start_record failed
            # a RuleCheck record with the returned status closes the rule whenever it returns Ok
            if rst is not None:
                parts.append(f"(=> (= {rtag} 0) " + (f"(= {rulecheck[-1]} {rst})" if rulecheck and rulecheck[-1] is not None else "false") + ")")
            good = "(and " + " ".join(parts) + ")" if parts else "true"
            good = f"(ite {rec_ok(p)} {good} (= {rtag} 1))"
            bad.append(f"(and {pc_term(p.pc)} (not {good}))")
        c = self.discharge("eval_rule/when-and-body", ex, bad,
                           "eval_rule: the body is evaluated iff there is no `when` or its conditions are PASS; otherwise the rule is "
                           "SKIP; the rule status is the body status; RuleCondition / RuleCheck records carry those statuses")
        if c:
            c["replay"] = self.replay_rule_when(c)
            c["reproduced"] = c["replay"].get("reproduced", False)
            self.candidates.append(c)

    def replay_rule_when(self, cand):
        """rule-level when whose conjunction is PASS / FAIL / SKIP (a filter that selects nothing, non-empty operator)
        x body PASS / FAIL: the rule is the body's status iff the guard is PASS, SKIP otherwise; file status and exit follow"""
        exe = self.cli()
        if not exe:
            return {"reproduced": False, "note": "native build failed"}
        conds = {"PASS": "a == 1", "FAIL": "a == 2", "SKIP": "L[ x == 9 ].y == 2"}
        bodies = {"PASS": "a == 1", "FAIL": "a == 2"}
        tried = []
        for c, ctext in conds.items():
            for b, btext in bodies.items():
                rules = f"rule r when {ctext} {{\n  {btext}\n}}\n"
                rc, rep, err = self.run_structured(exe, rules, ['{"a":\n 1, "L": [ {"x": 1, "y": 2} ]}\n'])
                exp = b if c == "PASS" else "SKIP"
                if not (rep and isinstance(rep, list) and rep):
                    tried.append({"guard": c, "body": b, "ok": None, "note": "no report (recipe did not run)", "exit": rc})
                    continue
                r = rep[0]
                got = "PASS" if "r" in r.get("compliant", []) else ("SKIP" if "r" in r.get("not_applicable", []) else "FAIL")
                exp_rc = 19 if exp == "FAIL" else 0
                ok = got == exp and r.get("status") == exp and rc == exp_rc
                tried.append({"guard": c, "body": b, "ok": ok})
                if not ok:
                    return {"reproduced": True, "rules_file": rules, "expected_rule_status": exp, "observed_rule_status": got,
                            "observed_file_status": r.get("status"), "exit": rc, "expected_exit": exp_rc}
        return {"reproduced": False, "tried": tried}

    # ------------------------------------------------------------------------------------------
    def eval_when_condition_block(self):
        ex = self.exec(r"(?:(?:rules::)?eval::)?eval_when_condition_block",
                       {"eval_conjunction_clauses": mirexec.m_result_status, "eval_general_block_clause": mirexec.m_result_status})
        self.fns.append("rules::eval::eval_when_condition_block")
        P, F, S = self.P, self.F, self.S
        bad = []
        for p in ex.paths:
            conds = calls(p, "eval_conjunction_clauses")
            bodies = calls(p, "eval_general_block_clause")
            ends = calls(p, "end_record")
            rtag, rst = ret_ok_status(p)
            if rtag is None or len(conds) > 1 or len(bodies) > 1:
                bad.append(pc_term(p.pc))
                continue
            recs = [record_status(e[2][2]) if len(e[2]) > 2 else (None, None) for e in ends]
            whencheck = [st for v, st in recs if v == "WhenCheck"]
            parts = []
            if conds:
                ctag, cst = conds[0][3][2], conds[0][3][3]["Ok"][2]
                cond_pass = f"(and (= {ctag} 0) (= {cst} {P}))"
                if bodies:
                    parts.append(cond_pass)
                else:
                    parts.append(f"(not {cond_pass})")
                    parts.append(f"(=> (= {rtag} 0) (= {rst} {S}))" if rst is not None else f"(not (= {rtag} 0))")
            else:
                parts.append(f"(= {rtag} 1)")
            if bodies:
                btag, bst = bodies[0][3][2], bodies[0][3][3]["Ok"][2]
                parts.append(f"(=> (and (= {rtag} 0) (= {btag} 0)) (= {rst} {bst}))" if rst is not None else f"(not (= {rtag} 0))")
                parts.append(f"(=> (= {btag} 1) (= {rtag} 1))")
            if rst is not None:
                parts.append(f"(=> (= {rtag} 0) " + (f"(= {whencheck[-1]} {rst})" if whencheck and whencheck[-1] is not None else "false") + ")")
            good = "(and " + " ".join(parts) + ")"
            good = f"(ite {rec_ok(p)} {good} (= {rtag} 1))"
            bad.append(f"(and {pc_term(p.pc)} (not {good}))")
        c = self.discharge("eval_when_condition_block/when-and-body", ex, bad,
                           "inner `when` block: body evaluated iff the conditions are PASS, else the block is SKIP and the body is not "
                           "evaluated; block status = body status; the WhenCheck record carries it")
        if c:
            c["replay"] = self.replay_when_block(c)
            c["reproduced"] = c["replay"].get("reproduced", False)
            self.candidates.append(c)

    # ------------------------------------------------------------------------------------------
    def evaluate_against_data_input(self):
        # flags that only select what is printed are fixed (verbose = print_json = false, no --input-parameters):
        # they multiply the paths by 2^k without touching the status fold
        ex = self.exec(r"(?:commands::validate::)?evaluate_against_data_input",
                       {"eval_rules_file": mirexec.m_result_status, "is_empty": lambda ex, a: ("bool", "true"),
                        "report_eval": mirexec.m_result_unit},
                       init_env={"_7": ("bool", "false"), "_8": ("bool", "false"), "_3": ("enum", "Option", "0", {})},
                       max_paths=20000)
        self.fns.append("commands::validate::evaluate_against_data_input")
        P, F, S = self.P, self.F, self.S
        bad = []
        for p in ex.paths:
            evs = calls(p, "eval_rules_file")
            rtag, rst = ret_ok_status(p)
            if rtag is None:
                bad.append(pc_term(p.pc))
                continue
            sts = [e[3][3]["Ok"][2] for e in evs]
            anyf = "(or " + " ".join(f"(= {t} {F})" for t in sts) + ")" if sts else "false"
            good = f"(=> (= {rtag} 0) (= (= {rst} {F}) {anyf}))" if rst is not None else f"(not (= {rtag} 0))"
            bad.append(f"(and {pc_term(p.pc)} (not {good}))")
        c = self.discharge("evaluate_against_data_input/fail-is-sticky", ex, bad,
                           "validate, one rules file against <= 2 data files (loop unrolled twice): the returned status is FAIL iff the "
                           "evaluation of some data file was FAIL (a later PASS/SKIP never erases an earlier FAIL)")
        if c:
            c["replay"] = self.replay_data_inputs(c, ex)
            c["reproduced"] = c["replay"].get("reproduced", False)
            self.candidates.append(c)

    def evaluate_rule(self):
        def m_parse(ex, argv):
            inner = ex.fresh_enum("Option", 2, "parsed", {"Some": ex.opq()})
            return ex.fresh_result(inner, "parse")
        ex = self.exec(r"(?:commands::validate::)?evaluate_rule",
                       {"parse_rules": m_parse, "evaluate_against_data_input": mirexec.m_result_status,
                        "write_err": mirexec.m_result_unit})
        self.fns.append("commands::validate::evaluate_rule")
        consts = mirsmt.consts_of(self.mir)
        for k in ("SUCCESS_STATUS_CODE", "ERROR_STATUS_CODE", "FAILURE_STATUS_CODE"):
            if k not in consts:
                raise Untranslatable(f"const {k} not found")
        OKC, ERRC, FAILC = consts["SUCCESS_STATUS_CODE"], consts["ERROR_STATUS_CODE"], consts["FAILURE_STATUS_CODE"]
        bad = []
        for p in ex.paths:
            parses = calls(p, "parse_rules")
            evs = calls(p, "evaluate_against_data_input")
            r = p.ret
            if not r or r[0] != "enum" or len(parses) != 1:
                bad.append(pc_term(p.pc))
                continue
            rtag = r[2]
            code = r[3].get("Ok")
            code = code[1] if code and code[0] == "int" else None
            ptag = parses[0][3][2]
            otag = parses[0][3][3]["Ok"][2]
            parts = []
            if code is not None:
                if evs:
                    etag, est = evs[0][3][2], evs[0][3][3]["Ok"][2]
                    parts.append(f"(=> (= {rtag} 0) (and (= {ptag} 0) (= {otag} 1) (= {etag} 0) (= {code} (ite (= {est} {self.F}) {FAILC} {OKC}))))")
                else:
                    parts.append(f"(=> (= {rtag} 0) (= {code} (ite (= {ptag} 1) {ERRC} {OKC})))")
                    parts.append(f"(=> (= {rtag} 0) (or (= {ptag} 1) (= {otag} 0)))")
            else:
                parts.append(f"(not (= {rtag} 0))")
            good = "(and " + " ".join(parts) + ")"
            bad.append(f"(and {pc_term(p.pc)} (not {good}))")
        c = self.discharge("evaluate_rule/exit-code", ex, bad,
                           f"validate, per rules file: exit code {ERRC} iff the rules file does not parse, {FAILC} iff it parses and the "
                           f"evaluation is FAIL, else {OKC}")
        if c:
            import mirflow
            c["replay"] = mirflow.replay_exit_codes(self)
            if not c["replay"].get("reproduced"):
                r2 = self.replay_empty_data_collection()
                if r2.get("reproduced"):
                    c["replay"] = r2
            c["reproduced"] = c["replay"].get("reproduced", False)
            self.candidates.append(c)

    def evaluate_rule_passes_arguments(self):
        """C17 / C12 / C07: validate's per-rules-file step hands evaluate_against_data_input exactly what it was given - the data type, the
        output format, the merged input parameters, the data files, the flags, the summary selection and the writer - whatever the
        data files look like (no per-run decision to drop the parameters)"""
        def m_parse(ex, argv):
            inner = ex.fresh_enum("Option", 2, "parsed", {"Some": ex.opq()})
            return ex.fresh_result(inner, "parse")
        ex = self.exec(r"(?:commands::validate::)?evaluate_rule",
                       {"parse_rules": m_parse, "evaluate_against_data_input": mirexec.m_result_status,
                        "write_err": mirexec.m_result_unit}, log=("*",))
        self.fns.append("commands::validate::evaluate_rule (arguments passed on)")
        from mirflow import same
        names = {0: "_1", 1: "_2", 2: "_3", 3: "_4", 6: "_6", 7: "_7", 8: "_8", 9: "_9"}
        bad, n = [], 0
        for p in ex.paths:
            evs = calls(p, "evaluate_against_data_input")
            ok = True
            for e in evs:
                n += 1
                ok = ok and len(e[2]) == 10 and all(same(e[2][i], ex.arg_env[v]) for i, v in names.items())
            # nothing else is consulted about the data files / parameters on the way (is_map, iter, all ...)
            other = [e[1] for e in p.events if e[0] == "call" and e[1] not in ("evaluate_against_data_input", "parse_rules", "write_err", "underline", "format",
                                                                                   "branch", "from_residual", "eq", "deref", "as_str", "new_display", "new_v1", "new_const", "new_debug", "must_use", "from_output")]
            if evs and any(o in ("is_map", "is_list", "is_scalar", "all", "any", "iter", "is_some", "is_none", "is_empty", "len", "first") for o in other):
                ok = False
            bad.append("false" if ok else pc_term(p.pc))
        c = self.discharge("evaluate_rule/arguments-passed-on", ex, bad,
                           f"validate, per rules file ({n} evaluations over all paths): evaluate_against_data_input receives evaluate_rule's own data type, "
                           "output format, input parameters, data files, verbose / print-json flags, summary selection and writer, unchanged; no look at the "
                           "data files or the parameters decides what is passed")
        if c:
            c["replay"] = self.replay_params_mixed_roots()
            c["reproduced"] = c["replay"].get("reproduced", False)
            self.candidates.append(c)

    def replay_params_mixed_roots(self, cand=None):
        """validate (console output) with -i over data files of which one has a list root: what is reported for a map document is what it gets
        alone with the same -i; a parameter / data key conflict stays an error"""
        import re as _re
        exe = self.cli()
        if not exe:
            return {"reproduced": False, "note": "native build failed"}
        d = tempfile.mkdtemp(prefix="cfnverif_replay_")
        out = []
        try:
            w = lambda n_, t: open(os.path.join(d, n_), "w").write(t)
            w("r.guard", "rule r {\n  extra == 1\n}\n")
            w("p.json", '{"extra": 1}\n')
            w("a.json", '{"x": 1}\n')
            w("b.json", '[1, 2]\n')
            w("c.json", '{"extra": 5}\n')
            w("s.json", '"just a string"\n')

            def run(files):
                cmd = [exe, "validate", "-r", os.path.join(d, "r.guard"), "-i", os.path.join(d, "p.json"), "--show-summary", "all"]
                for f in files:
                    cmd += ["-d", os.path.join(d, f)]
                pr = subprocess.run(cmd, capture_output=True, text=True, timeout=60)
                st = dict(_re.findall(r"(\w+\.json) Status = (\w+)", pr.stdout))
                return pr.returncode, st
            rc_a, st_a = run(["a.json"])
            rc_c, st_c = run(["c.json"])
            for other in ("b.json", "s.json"):
                for order in ([ "a.json", other], [other, "a.json"]):
                    rc, st = run(order)
                    if "a.json" in st and st["a.json"] != st_a.get("a.json"):
                        out.append({"data_files": order, "a.json alone with -i": st_a.get("a.json"), "a.json in this run": st["a.json"], "exit": rc})
                    elif "a.json" not in st and rc in (0, 19):
                        out.append({"data_files": order, "problem": "no status for a.json although the run ended with a verdict exit code", "exit": rc})
                rc, st = run(["c.json", other])
                if rc_c not in (0, 19) and rc in (0, 19):
                    out.append({"data_files": ["c.json", other], "problem": f"key conflict between -i and c.json is an error alone (exit {rc_c}) but not in this run", "exit": rc})
            return {"reproduced": bool(out), "mismatches": out[:4], "alone": {"a.json": [rc_a, st_a], "c.json": [rc_c, st_c]}}
        finally:
            shutil.rmtree(d, ignore_errors=True)

    def replay_empty_data_collection(self, cand=None):
        """a rules file that does not parse gives exit 5 also when there is no data file to evaluate (a directory without files of a
        supported extension, a payload with `data: []`); a good rules file gives 0 there"""
        exe = self.cli()
        if not exe:
            return {"reproduced": False, "note": "native build failed"}
        d = tempfile.mkdtemp(prefix="cfnverif_replay_")
        out = []
        try:
            os.makedirs(os.path.join(d, "empty"))
            open(os.path.join(d, "empty", "readme.txt"), "w").write("not a data file\n")
            texts = {"good": "rule p { a == 1 }\n", "broken": "rule b { a == }\n"}
            for k, t in texts.items():
                open(os.path.join(d, k + ".guard"), "w").write(t)
            for k, want in (("good", 0), ("broken", 5)):
                for structured in (False, True):
                    extra = ["--structured", "-o", "json"] if structured else []
                    pr = subprocess.run([exe, "validate", "-r", os.path.join(d, k + ".guard"), "-d", os.path.join(d, "empty"), "--show-summary", "none"] + extra,
                                        stdout=subprocess.PIPE, stderr=subprocess.PIPE, text=True, timeout=60)
                    if pr.returncode != want:
                        out.append({"rules_file": texts[k], "data": "a directory without data files", "structured": structured, "expected_exit": want,
                                    "observed_exit": pr.returncode})
                    pr = subprocess.run([exe, "validate", "--payload", "--show-summary", "none"] + extra, input=json.dumps({"rules": [texts[k]], "data": []}),
                                        stdout=subprocess.PIPE, stderr=subprocess.PIPE, text=True, timeout=60)
                    if pr.returncode != want:
                        out.append({"rules_file": texts[k], "data": "payload with data: []", "structured": structured, "expected_exit": want,
                                    "observed_exit": pr.returncode})
            return {"reproduced": bool(out), "mismatches": out[:4]}
        finally:
            shutil.rmtree(d, ignore_errors=True)

    # ------------------------------------------------------------------------------------------
    # memoisation sites: what is stored in the cache is what is returned (so that the first and every later
    # read of a variable / rule status agree, in any evaluation order)
    # ------------------------------------------------------------------------------------------
    def same_value(self, a, b):
        """SMT term (or python bool rendered as true/false) stating that two executor values are the same value"""
        if a is None or b is None:
            return "false"
        if a[0] == "opaque" and b[0] == "opaque":
            return "true" if a[1] == b[1] else "false"
        if a[0] == "enum" and b[0] == "enum":
            return f"(= {a[2]} {b[2]})"
        if a[0] == b[0] and a[0] in ("int", "bool"):
            return f"(= {a[1]} {b[1]})"
        return "false"

    def memo_site(self, label, fn_re, first_arg_re, models, replay=None):
        ex = self.exec(fn_re, models, log=("insert", "get"), unroll=1, first_arg_re=first_arg_re)
        self.fns.append(label)
        bad = []
        for p in ex.paths:
            r = p.ret
            ins = calls(p, "insert")
            if not r or r[0] != "enum" or r[1] != "Result":
                # result delegated to another scope (`self.parent.resolve_variable(..)`): nothing is cached here
                if ins:
                    bad.append(pc_term(p.pc))
                continue
            ok = r[3].get("Ok")
            parts = []
            for e in ins:
                stored = e[2][-1] if e[2] else None
                parts.append(f"(=> (= {r[2]} 0) {self.same_value(stored, ok)})")
            good = "(and " + " ".join(parts) + ")" if parts else "true"
            bad.append(f"(and {pc_term(p.pc)} (not {good}))")
        c = self.discharge(f"{label}/memo-consistent", ex, bad,
                           f"{label}: on every path that stores into its cache and returns Ok, the stored value is the returned value "
                           "(first read == later reads)")
        if c:
            if replay:
                c["replay"] = replay(c)
                c["reproduced"] = c["replay"].get("reproduced", False)
            else:
                c["reproduced"] = False
            self.candidates.append(c)

    def memo_sites(self):
        impl = r"(?:rules::)?eval_context::<impl at guard/src/rules/eval_context\.rs:\d+:\d+: \d+:\d+>::"
        self.memo_site("RootScope::rule_status", impl + "rule_status", r"_1: &mut (?:eval_context::)?RootScope",
                       {"eval_rule": mirexec.m_result_status})
        self.memo_site("RootScope::resolve_variable", impl + "resolve_variable", r"_1: &mut (?:eval_context::)?RootScope",
                       {}, replay=self.replay_variable_twice)
        self.memo_site("BlockScope::resolve_variable", impl + "resolve_variable", r"_1: &mut (?:eval_context::)?BlockScope",
                       {})

    def replay_variable_twice(self, cand):
        """a file-level `some` variable over a mixed resolved/unresolved selection, read by two rules: both reads
        must see the same values (both rules PASS)"""
        exe = self.cli()
        if not exe:
            return {"reproduced": False, "note": "native build failed"}
        rules = ("let v = some Resources.*.Properties.Enc\n"
                 "rule first {\n  %v == true\n}\nrule second {\n  %v == true\n}\n"
                 "let w = Resources.*.Properties.Enc\n"
                 "rule third {\n  some %w == true\n}\nrule fourth {\n  some %w == true\n}\n")
        data = '{"Resources": {\n "a": {"Properties": {"Enc": true}},\n "b": {"Properties": {}}}}\n'
        rc, rep, err = self.run_structured(exe, rules, [data])
        if not (rep and isinstance(rep, list) and rep):
            return {"reproduced": False, "note": "no report", "exit": rc, "stderr": err}
        comp = set(rep[0].get("compliant", []))
        failed = {x["Rule"]["name"] for x in rep[0].get("not_compliant", []) if "Rule" in x}
        # whatever the status of a read is, the second read of the same variable must agree with the first
        agree = (("first" in comp) == ("second" in comp)) and (("third" in comp) == ("fourth" in comp)) and \
                (("first" in failed) == ("second" in failed)) and (("third" in failed) == ("fourth" in failed))
        return {"reproduced": not agree, "rules_file": rules, "data": data, "compliant": sorted(comp), "not_compliant": sorted(failed), "exit": rc}

    # ------------------------------------------------------------------------------------------
    # index sites: every `v[i]` (Vec / slice Index<usize>) on every path satisfies i < len(v), with `len`,
    # `is_empty` and indexing modelled consistently per value
    # ------------------------------------------------------------------------------------------
    INDEX_FUNCS = [
        ("operators::contained_in", r"(?:(?:rules::eval::)?operators::)?contained_in", ""),
        ("operators::EqOperation::compare", r"(?:rules::eval::)?operators::<impl at guard/src/rules/eval/operators\.rs:\d+:\d+: \d+:\d+>::compare", r"_1: &(?:operators::)?EqOperation"),
        ("eval::each_lhs_compare", r"(?:(?:rules::)?eval::)?each_lhs_compare", ""),
        # Display of a query / value list: used on lists that may be EMPTY (the `to` of a failing IN whose right-hand query selects nothing)
        ("exprs::SliceDisplay::fmt", r"(?:rules::)?exprs::<impl at guard/src/rules/exprs\.rs:\d+:\d+: \d+:\d+>::fmt", r"_1: &(?:exprs::)?SliceDisplay"),
    ]

    CALLABLE_IMPL = r"(?:rules::)?eval_context::<impl at guard/src/rules/eval_context\.rs:\d+:\d+: \d+:\d+>::call"
    # built-in functions that index their argument lists: (label, impl type, FunctionName variant)
    ARG_INDEX_FUNCS = [("SubstringFunction::call", "SubstringFunction", "Substring"), ("JoinFunction::call", "JoinFunction", "Join"),
                       ("RegexReplaceFunction::call", "RegexReplaceFunction", "RegexReplace")]

    def expected_args(self, variant):
        """arity of a built-in from get_expected_number_of_args (the parser rejects calls with another number of arguments)"""
        t = open(os.path.join(self.src, "guard", "src", "rules", "eval_context.rs")).read()
        m = re.search(r"fn get_expected_number_of_args\(&self\) -> usize \{\s*match self \{(.*?)\n        \}", t, re.S)
        if not m:
            raise Untranslatable("get_expected_number_of_args not found")
        for arm in re.finditer(r"((?:\|?\s*FunctionName::\w+\s*)+)=>\s*(\d+)", m.group(1)):
            if re.search(r"FunctionName::" + variant + r"\b", arm.group(1)):
                return int(arm.group(2))
        raise Untranslatable(f"arity of {variant} not found")

    def index_sites(self):
        sites = [(l, f, a1, None) for l, f, a1 in self.INDEX_FUNCS] + \
                [(l, self.CALLABLE_IMPL, r"_1: &(?:eval_context::)?" + ty + ",", var) for l, ty, var in self.ARG_INDEX_FUNCS]
        for label, fre, a1, arity_of in sites:
            try:
                ex = self.exec(fre, {}, log=("index",), unroll=1, first_arg_re=a1, max_paths=20000)
                if arity_of:
                    # documented precondition: the parser has checked the number of arguments
                    ex.side.append(f"(= {ex.len_of(ex.arg_env['_2'])} {self.expected_args(arity_of)})")
            except Untranslatable as e:
                self.ob.items.append({"obligation": f"{label}/index-in-bounds", "describe": str(e), "verdicts": {},
                                      "status": "inconclusive", "model": None})
                continue
            self.fns.append(label)
            bad = []
            n = 0
            for p in ex.paths:
                for e in calls(p, "index"):
                    if len(e[2]) == 2 and e[2][1][0] == "int":
                        n += 1
                        bad.append(f"(and {pc_term(p.pc)} (not (< {e[2][1][1]} {ex.len_of(e[2][0])})))")
                for e in p.events:
                    if e[0] == "assert" and "index out of bounds" in e[1]:      # `slice[i]` bounds check
                        n += 1
                        bad.append(f"(and {pc_term(e[2])} {e[3]})")
            # the index event is logged when the call is made, so the path condition up to that point is what guards it:
            # use only the prefix of the path condition that existed at the call (events carry no pc; conservative: whole pc)
            c = self.discharge(f"{label}/index-in-bounds", ex, bad,
                               f"{label}: every `v[i]` on every path ({n} index events) has i < len(v) (len / is_empty / index modelled per value)")
            if c and arity_of:
                c["replay"] = self.replay_empty_arg(label)
                c["reproduced"] = c["replay"].get("reproduced", False)
                self.candidates.append(c)
            elif c:
                import mirblocks
                c["replay"] = mirblocks.replay_in(self)
                c["reproduced"] = c["replay"].get("reproduced", False)
                self.candidates.append(c)
            elif c:
                c["replay"] = self.replay_in_empty(c) if "contained_in" in label else {"reproduced": False}
                c["reproduced"] = c["replay"].get("reproduced", False)
                self.candidates.append(c)

    def replay_empty_arg(self, label):
        """a built-in whose second / third argument is a query that selects nothing"""
        exe = self.cli()
        if not exe:
            return {"reproduced": False, "note": "native build failed"}
        recipes = {"SubstringFunction::call": ['let x = substring(Name, L[ this == 99 ], 2)', 'let x = substring(Name, 0, L[ this == 99 ])'],
                   "JoinFunction::call": ['let x = join(L, S[ this == "q" ])'],
                   "RegexReplaceFunction::call": ['let x = regex_replace(Name, S[ this == "q" ], "b")', 'let x = regex_replace(Name, "a", S[ this == "q" ])']}
        data = '{"Name": "abc",\n "L": [1, 2], "S": ["a"]}\n'
        for let in recipes.get(label, []):
            rules = let + '\nrule t {\n  %x == "a"\n}\n'
            d = tempfile.mkdtemp(prefix="cfnverif_replay_")
            try:
                open(os.path.join(d, "r.guard"), "w").write(rules)
                open(os.path.join(d, "d.json"), "w").write(data)
                env = dict(os.environ)
                env["RUST_BACKTRACE"] = "0"
                p = subprocess.run([exe, "validate", "-r", os.path.join(d, "r.guard"), "-d", os.path.join(d, "d.json")],
                                   stdout=subprocess.PIPE, stderr=subprocess.STDOUT, text=True, timeout=120, env=env)
            finally:
                shutil.rmtree(d, ignore_errors=True)
            if p.returncode == 101 and "index out of bounds" in p.stdout:
                return {"reproduced": True, "rules_file": rules, "data": data, "exit": 101,
                        "panic": [l for l in p.stdout.splitlines() if "panicked" in l or "index out of bounds" in l][:2]}
        return {"reproduced": False}

    def replay_in_empty(self, cand):
        exe = self.cli()
        if not exe:
            return {"reproduced": False, "note": "native build failed"}
        for rules, data in [("rule t {\n  L in []\n}\n", '{"L":\n [1, 2]}\n'),
                            ("rule t {\n  L in M\n}\n", '{"L":\n [1, 2], "M": []}\n'),
                            ("rule t {\n  L not in []\n}\n", '{"L":\n [1, 2]}\n')]:
            d = tempfile.mkdtemp(prefix="cfnverif_replay_")
            try:
                open(os.path.join(d, "r.guard"), "w").write(rules)
                open(os.path.join(d, "d.json"), "w").write(data)
                p = subprocess.run([exe, "validate", "-r", os.path.join(d, "r.guard"), "-d", os.path.join(d, "d.json")],
                                   stdout=subprocess.PIPE, stderr=subprocess.STDOUT, text=True, timeout=120)
            finally:
                shutil.rmtree(d, ignore_errors=True)
            if p.returncode == 101 and "index out of bounds" in p.stdout:
                return {"reproduced": True, "rules_file": rules, "data": data, "exit": 101,
                        "panic": [l for l in p.stdout.splitlines() if "panicked" in l or "index out of bounds" in l][:2]}
        return {"reproduced": False}

    # ------------------------------------------------------------------------------------------
    # prefix negation must reach the binary path of the clause evaluator (C03): on every path of
    # eval_guard_access_clause that calls binary_operation, flipping `gac.negation` must be able to change what is
    # passed to / done with the comparison (otherwise `not X == v` means the same as `X == v`)
    # ------------------------------------------------------------------------------------------
    def flat_terms(self, v, out):
        if v is None:
            return
        if v[0] in ("int", "bool"):
            out.append(v[1])
        elif v[0] == "enum":
            out.append(v[2])
            for pv in v[3].values():
                self.flat_terms(pv, out)
        elif v[0] == "tuple":
            for x in v[1]:
                self.flat_terms(x, out)
        elif v[0] == "struct":
            for x in v[2].values():
                self.flat_terms(x, out)
        elif v[0] == "variant":
            for x in v[3]:
                self.flat_terms(x, out)

    def gac_negation(self):
        def m_evalres(ex, argv):
            return ex.fresh_result(ex.opq(), "evr")
        ex = self.exec(r"(?:(?:rules::)?eval::)?eval_guard_access_clause",
                       {"unary_operation": m_evalres, "binary_operation": m_evalres, "query": m_evalres,
                        "resolve_function": m_evalres, "is_unary": lambda ex, a: ("bool", ex.fresh("Bool", "unary"))},
                       unroll=1, max_paths=20000)
        self.fns.append("rules::eval::eval_guard_access_clause (negation flow on the binary path)")
        a1 = ex.arg_env.get("_1")
        neg = ex.proj.get((a1[1], ".1")) if a1 and a1[0] == "opaque" else None
        label = "eval_guard_access_clause/negation-reaches-binary-path"
        bin_paths = [p for p in ex.paths if calls(p, "binary_operation")]
        if not bin_paths:
            self.ob.items.append({"obligation": label, "describe": "no path calls binary_operation (function restructured)", "verdicts": {},
                                  "status": "inconclusive", "model": None})
            return
        N = neg[1] if neg and neg[0] == "bool" else None
        dep_queries = []
        if N is not None:
            for p in bin_paths:
                terms = []
                for e in calls(p, "binary_operation"):
                    for av in e[2]:
                        self.flat_terms(av, terms)
                self.flat_terms(p.ret, terms)
                terms += p.pc
                sub = lambda t: re.sub(re.escape(N) + r"(?![\w!])", f"(not {N})", t)
                diffs = [f"(not (= {t} {sub(t)}))" for t in terms if N in t]
                if diffs:
                    dep_queries.append("(or " + " ".join(diffs) + ")")
        goal = "(or " + " ".join(dep_queries) + ")" if dep_queries else "false"
        # the property holds iff some binary path can tell negation = true from negation = false: expect SAT
        script_decls = ex.decls
        st = self.ob.check(label, script_decls, ex.side, goal,
                           "some path of eval_guard_access_clause through binary_operation passes / branches on a value that changes "
                           "when gac.negation is flipped (prefix `not` is not ignored on binary clauses)", expect="refuted")
        item = self.ob.items[-1]
        if st != "witness-ok":
            # both solvers: no dependency at all -> prefix negation cannot influence binary clauses
            if all(v == "unsat" for v in item["verdicts"].values()):
                item["status"] = "refuted"
                item["replay"] = self.replay_binary_not(item)
                item["reproduced"] = item["replay"].get("reproduced", False)
                self.candidates.append(item)
        else:
            item["status"] = "proved"

    def replay_binary_not(self, cand):
        exe = self.cli()
        if not exe:
            return {"reproduced": False, "note": "native build failed"}
        data = '{"X":\n 1}\n'
        cases = [("not X == 1", "FAIL"), ("not X == 2", "PASS"), ("not X > 0", "FAIL"), ("not X < 0", "PASS"),
                 ("not X in [1, 2]", "FAIL"), ("not X != 1", "PASS")]
        out = []
        for clause, exp in cases:
            rules = f"rule t {{\n  {clause}\n}}\n"
            rc, rep, err = self.run_structured(exe, rules, [data])
            if not (rep and isinstance(rep, list) and rep):
                continue
            r = rep[0]
            got = "PASS" if "t" in r.get("compliant", []) else ("SKIP" if "t" in r.get("not_applicable", []) else "FAIL")
            out.append({"clause": clause, "data": {"X": 1}, "expected": exp, "observed": got})
        bad = [o for o in out if o["expected"] != o["observed"]]
        return {"reproduced": bool(bad), "cases": out}

    # ------------------------------------------------------------------------------------------
    # native replays: inputs synthesised from the solver's model
    # ------------------------------------------------------------------------------------------
    def cli(self):
        env = dict(os.environ)
        env["CARGO_NET_OFFLINE"] = "true"
        base = os.path.basename(self.src.rstrip("/"))
        env["CARGO_TARGET_DIR"] = os.path.join(os.path.dirname(self.src.rstrip("/")), "native-target" if base == "src" else "native-target-" + base)
        env.pop("RUSTUP_TOOLCHAIN", None)
        b = subprocess.run(["cargo", "build", "--offline", "-p", "cfn-guard", "--bin", "cfn-guard"], cwd=self.src, env=env,
                           stdout=subprocess.PIPE, stderr=subprocess.STDOUT, text=True, timeout=1800)
        exe = os.path.join(env["CARGO_TARGET_DIR"], "debug", "cfn-guard")
        return exe if b.returncode == 0 and os.path.exists(exe) else None

    def model_ints(self, cand):
        return {m.group(1): int(m.group(3)) * (-1 if m.group(2) else 1) for m in
                re.finditer(r"define-fun \|?([\w!]+)\|? \(\) Int\s+\(?(- )?(\d+)\)?", cand.get("model") or "")}

    RULE_FOR = {0: "rule {n} {{ a == 1 }}", 1: "rule {n} {{ a == 2 }}", 2: "rule {n} when a == 2 {{ a == 1 }}"}
    DATA_FOR = {0: '{"k": 1,\n "a": 1}\n', 1: '{"k": 1,\n "a": 2}\n', 2: '{"k": 0,\n "a": 1}\n'}

    def run_structured(self, exe, rules, datas):
        d = tempfile.mkdtemp(prefix="cfnverif_replay_")
        try:
            open(os.path.join(d, "r.guard"), "w").write(rules)
            cmd = [exe, "validate", "-r", os.path.join(d, "r.guard"), "--structured", "-o", "json", "--show-summary", "none"]
            for i, t in enumerate(datas):
                open(os.path.join(d, f"d{i}.json"), "w").write(t)
                cmd += ["-d", os.path.join(d, f"d{i}.json")]
            p = subprocess.run(cmd, stdout=subprocess.PIPE, stderr=subprocess.PIPE, text=True, timeout=120)
            try:
                rep = json.loads(p.stdout)
            except Exception:
                rep = None
            return p.returncode, rep, p.stderr[-300:]
        finally:
            shutil.rmtree(d, ignore_errors=True)

    def replay_rules_file(self, cand):
        """two rules whose statuses are (PASS|FAIL|SKIP)^2, the second one referenced by name from the first
        (forward reference): every rule must be listed once, in the bucket of its status, file status = fold"""
        exe = self.cli()
        if not exe:
            return {"reproduced": False, "note": "native build failed"}
        tried = []
        names = {self.P: "PASS", self.F: "FAIL", self.S: "SKIP"}
        body = {"PASS": "a == 1", "FAIL": "a == 2"}
        for s1 in ("PASS", "FAIL", "SKIP"):
            for s2 in ("PASS", "FAIL", "SKIP"):
                r2 = f"rule second {{ {body[s2]} }}" if s2 != "SKIP" else "rule second when a == 2 { a == 1 }"
                # `first` mentions `second` in an or-alternative that never decides its status
                if s1 == "PASS":
                    r1 = "rule first {\n  second or a == 1\n}"
                elif s1 == "FAIL":
                    r1 = "rule first {\n  second or a == 1\n  a == 2\n}"
                else:
                    r1 = "rule first when a == 2 {\n  second or a == 1\n}"
                rules = r1 + "\n" + r2 + "\n"
                rc, rep, err = self.run_structured(exe, rules, ['{"a":\n 1}\n'])
                exp_file = "FAIL" if "FAIL" in (s1, s2) else ("PASS" if "PASS" in (s1, s2) else "SKIP")
                ok = False
                if not (rep and isinstance(rep, list) and rep):
                    tried.append({"statuses": [s1, s2], "ok": None, "note": "no report (recipe did not run)", "exit": rc})
                    continue
                if rep and isinstance(rep, list) and rep:
                    r = rep[0]
                    buckets = {"PASS": set(r.get("compliant", [])), "SKIP": set(r.get("not_applicable", [])),
                               "FAIL": {x["Rule"]["name"] for x in r.get("not_compliant", []) if "Rule" in x}}
                    ok = ("first" in buckets[s1] and "second" in buckets[s2] and r.get("status") == exp_file
                          and sum("first" in b for b in buckets.values()) == 1 and sum("second" in b for b in buckets.values()) == 1)
                tried.append({"statuses": [s1, s2], "ok": ok})
                if not ok:
                    return {"reproduced": True, "rules_file": rules, "data": '{"a":\n 1}\n', "expected": {"first": s1, "second": s2, "file": exp_file},
                            "observed": rep, "exit": rc, "cmd": "cfn-guard validate -r r.guard -d d0.json --structured -o json --show-summary none"}
        # the same NAME defined twice (legal): the file status still folds over both definitions
        for s1 in ("PASS", "FAIL", "SKIP"):
            for s2 in ("PASS", "FAIL", "SKIP"):
                d = {"PASS": "{\n  a == 1\n}", "FAIL": "{\n  a == 2\n}", "SKIP": "when a == 2 {\n  a == 1\n}"}
                rules = f"rule same {d[s1]}\nrule same {d[s2]}\n"
                rc, rep, err = self.run_structured(exe, rules, ['{"a":\n 1}\n'])
                exp_file = "FAIL" if "FAIL" in (s1, s2) else ("PASS" if "PASS" in (s1, s2) else "SKIP")
                if not (rep and isinstance(rep, list) and rep):
                    tried.append({"same-name statuses": [s1, s2], "ok": None, "note": "no report", "exit": rc})
                    continue
                r0 = rep[0]
                ncomp = [x for x in r0.get("not_compliant", []) if "Rule" in x]
                # C09: the file status is FAIL iff not_compliant is non-empty, PASS iff it is empty and compliant is non-empty, else SKIP
                sets_say = "FAIL" if ncomp else ("PASS" if r0.get("compliant") else "SKIP")
                ok = r0.get("status") == exp_file and rc == (19 if exp_file == "FAIL" else 0) and sets_say == r0.get("status")
                tried.append({"same-name statuses": [s1, s2], "ok": ok})
                if not ok:
                    return {"reproduced": True, "rules_file": rules, "data": '{"a":\n 1}\n', "expected": {"file": exp_file, "status_implied_by_the_sets": "= file status"},
                            "observed": rep[0].get("status"), "status_implied_by_the_sets": sets_say, "compliant": r0.get("compliant"),
                            "not_applicable": r0.get("not_applicable"), "exit": rc}
        return {"reproduced": False, "tried": tried}

    def replay_when_block(self, cand):
        exe = self.cli()
        if not exe:
            return {"reproduced": False, "note": "native build failed"}
        # inner when whose condition is PASS / FAIL / SKIP (a filter that selects nothing) x body PASS / FAIL
        conds = {"PASS": "a == 1", "FAIL": "a == 2", "SKIP": "L[ x == 9 ].y exists"}
        bodies = {"PASS": "a == 1", "FAIL": "a == 2"}
        for c, ctext in conds.items():
            for b, btext in bodies.items():
                rules = f"rule r {{\n  a == 1\n  when {ctext} {{\n    {btext}\n  }}\n}}\n"
                rc, rep, err = self.run_structured(exe, rules, ['{"a":\n 1, "L": [ {"x": 1, "y": 2} ]}\n'])
                exp = ("PASS" if b == "PASS" else "FAIL") if c == "PASS" else "PASS"   # a skipped block leaves `a == 1` => PASS
                got = None
                if not (rep and isinstance(rep, list) and rep):
                    continue
                if rep and isinstance(rep, list) and rep:
                    r = rep[0]
                    got = "PASS" if "r" in r.get("compliant", []) else ("SKIP" if "r" in r.get("not_applicable", []) else "FAIL")
                if got != exp:
                    return {"reproduced": True, "rules_file": rules, "expected_rule_status": exp, "observed_rule_status": got, "exit": rc}
        return {"reproduced": False}

    def replay_data_inputs(self, cand, ex):
        exe = self.cli()
        if not exe:
            return {"reproduced": False, "note": "native build failed"}
        rules = "rule r when k == 1 { a == 1 }\n"
        names = ["PASS", "FAIL", "SKIP"]
        for s1 in range(3):
            for s2 in range(3):
                d = tempfile.mkdtemp(prefix="cfnverif_replay_")
                try:
                    open(os.path.join(d, "r.guard"), "w").write(rules)
                    open(os.path.join(d, "d1.json"), "w").write(self.DATA_FOR[s1])
                    open(os.path.join(d, "d2.json"), "w").write(self.DATA_FOR[s2])
                    p = subprocess.run([exe, "validate", "-r", os.path.join(d, "r.guard"), "-d", os.path.join(d, "d1.json"),
                                        "-d", os.path.join(d, "d2.json")], stdout=subprocess.PIPE, stderr=subprocess.STDOUT,
                                       text=True, timeout=120)
                finally:
                    shutil.rmtree(d, ignore_errors=True)
                exp = 19 if 1 in (s1, s2) else 0
                if p.returncode != exp:
                    return {"reproduced": True, "rules_file": rules, "data_files": [self.DATA_FOR[s1], self.DATA_FOR[s2]],
                            "per_file_status": [names[s1], names[s2]], "expected_exit": exp, "observed_exit": p.returncode,
                            "cmd": "cfn-guard validate -r r.guard -d d1.json -d d2.json"}
        return {"reproduced": False}


SITES = {
    "C02": ["eval_rules_file", "eval_rule", "eval_when_condition_block"],
    "C09": ["eval_rules_file"],
    "C04": ["eval_rules_file", "memo_sites"],
    "C06": ["evaluate_against_data_input", "evaluate_rule"],
    "C12": ["evaluate_against_data_input", "evaluate_rule", "evaluate_rule_passes_arguments"],        # `the run reports failure iff some pair does`
    "C07": ["evaluate_against_data_input", "evaluate_rule", "evaluate_rule_passes_arguments"],
    "C17": ["evaluate_rule_passes_arguments"],
    "C01": ["eval_rule", "eval_when_condition_block"],
    "C08": ["index_sites"],
    "C03": ["gac_negation"],
    "C15": ["memo_sites"],
}


def run(prop, mir, src, ob, tier="quick"):
    import mirblocks, mirflow, mirpaths, mirload, mirquery, mirorder, mirparse, mirgen
    a = Agg(mir, src, ob, tier)
    for s in SITES.get(prop, []):
        getattr(a, s)()
    for f in mirblocks.SITES.get(prop, []) + mirflow.SITES.get(prop, []) + mirpaths.SITES.get(prop, []) + mirload.SITES.get(prop, []) + mirquery.SITES.get(prop, []) + mirorder.SITES.get(prop, []) + mirparse.SITES.get(prop, []) + mirgen.SITES.get(prop, []):
        try:
            f(a)
        except Untranslatable as e:
            # the function was renamed / restructured beyond what the executor reads: inconclusive, never a pass
            ob.items.append({"obligation": f.__name__, "describe": "not translatable: " + str(e), "verdicts": {},
                             "status": "inconclusive", "model": None})
    return a


def has_sites(prop):
    import mirblocks, mirflow, mirpaths, mirload, mirquery, mirorder, mirparse, mirgen
    return (prop in mirgen.SITES or prop in mirparse.SITES or prop in SITES or prop in mirblocks.SITES or prop in mirflow.SITES or prop in mirpaths.SITES or prop in mirload.SITES
            or prop in mirquery.SITES or prop in mirorder.SITES)
