"""C01: query traversal wiring (eval_context.rs query_retrieval_with_converter and its helpers), decided on MIR with the
recursive call modelled as a fallible call whose ARGUMENTS are checked (engine: mirexec.Exec; z3 + cvc5).

What is decided: which value each traversal step continues with, that it continues at exactly the next query position,
when a step yields an unresolved entry / nothing / an error, and in which order results are accumulated - for lists of
<= 2 elements. What is not: the recursion as a whole (each step is checked against an arbitrary result of the next)."""
import os, re
import mirsmt, mirexec
from mirsmt import Untranslatable, pc_term
from miragg import calls
from mirblocks import enum_variants, struct_fields, disc, field, payload, iterations, m_result_opq
from mirflow import same, RC_NEW

REC = "query_retrieval_with_converter"
QCTX = r"(?:(?:rules::)?eval_context::)?"


def common_models():
    return {REC: m_result_opq, "next": mirexec.m_iter_next, "into_iter": mirexec.m_new_iter, "iter": mirexec.m_new_iter,
            RC_NEW: mirexec.m_identity, "to_unresolved_result": lambda ex, av: ex.fresh_result(ex.opq(), "unres"),
            "to_unresolved_value": lambda ex, av: ex.opq(), "self_path": lambda ex, av: ex.opq(), "type_info": lambda ex, av: ex.opq(),
            "with_capacity": lambda ex, av: ex.opq()}


def plus1(t):
    return f"(+ {t} 1)"


def _replay(a, c):
    if c:
        c["replay"] = replay_queries(a)
        c["reproduced"] = c["replay"].get("reproduced", False)
        a.candidates.append(c)


def _replay_vars(a, c):
    if c:
        c["replay"] = replay_queries(a)
        if not c["replay"].get("reproduced"):
            c["replay"] = replay_literal_variables(a)
        c["reproduced"] = c["replay"].get("reproduced", False)
        a.candidates.append(c)


def replay_variable_keys(a):
    """`M.%keys.v` with keys from a literal list / a list in the data / one string per result, one key missing: the unresolved
    entry must name the MAP (/M) as the value reached"""
    import json as _json
    exe = a.cli()
    if not exe:
        return {"reproduced": False, "note": "native build failed"}
    data = '{"M": {"a": {"v": 1}, "b": {"v": 2}},\n "D": ["a", "gone"], "E": [ {"k": "b"}, {"k": "lost"} ]}\n'
    rules = ("let names = [\"b\", \"nope\"]\nlet dl = D\nlet each = E[*].k\nrule t {\n  M.%names.v exists\n}\nrule u {\n  M.%dl.v exists\n}\n"
             "rule w {\n  M.%each.v exists\n}\n")
    rc, rep, err = a.run_structured(exe, rules, [data])
    if not (rep and isinstance(rep, list) and rep):
        return {"reproduced": False, "note": f"no report (exit {rc})"}
    out = []
    for x in rep[0].get("not_compliant", []):
        if "Rule" not in x:
            continue
        paths = re.findall(r'"traversed_to": \{"path": "([^"]*)"', _json.dumps(x))
        if not paths or any(p_ != "/M" for p_ in paths):
            out.append({"rule": x["Rule"]["name"], "expected_reached": "/M", "reported_reached": paths})
    names = {x["Rule"]["name"] for x in rep[0].get("not_compliant", []) if "Rule" in x}
    if names != {"t", "u", "w"}:
        out.append({"problem": "expected t, u, w to FAIL on their missing key", "failing": sorted(names)})
    return {"reproduced": bool(out), "mismatches": out[:3], "rules_file": rules, "data": data}


def replay_index_out_of_range(a):
    """`L[i]` / `L.i` with |i| >= length on lists of 0, 1, 2 elements (and nested): the unresolved entry must name the LIST as the
    value reached (never one of its elements, never the root)"""
    import json as _json
    exe = a.cli()
    if not exe:
        return {"reproduced": False, "note": "native build failed"}
    data = '{"L": ["a", "b"],\n "S": ["only"],\n "E": [],\n "N": {"in": [[1, 2], [3]]}}\n'
    want = {"l5": "/L", "l2": "/L", "ldot": "/L", "s1": "/S", "e0": "/E", "n2": "/N/in", "n02": "/N/in/0", "n11": "/N/in/1"}
    rules = ("rule l5 {\n  L[5] == \"z\"\n}\nrule l2 {\n  L[2] == \"z\"\n}\nrule ldot {\n  L.7 == \"z\"\n}\nrule s1 {\n  S[1] == \"z\"\n}\n"
             "rule e0 {\n  E[0] == \"z\"\n}\nrule n2 {\n  N.in[2] exists\n}\nrule n02 {\n  N.in[0][2] == 9\n}\nrule n11 {\n  N.in[1][1] == 9\n}\n")
    rc, rep, err = a.run_structured(exe, rules, [data])
    if not (rep and isinstance(rep, list) and rep):
        return {"reproduced": False, "note": f"no report (exit {rc})"}
    out, seen = [], set()
    for x in rep[0].get("not_compliant", []):
        if "Rule" not in x:
            continue
        name = x["Rule"]["name"]
        seen.add(name)
        paths = re.findall(r'"traversed_to": \{"path": "([^"]*)"', _json.dumps(x))
        if not paths or any(p_ != want.get(name) for p_ in paths):
            out.append({"rule": name, "expected_reached": want.get(name), "reported_reached": paths})
    if seen != set(want):
        out.append({"problem": "every rule indexes past the end and must FAIL", "failing": sorted(seen)})
    return {"reproduced": bool(out), "mismatches": out[:4], "rules_file": rules, "data": data}


def _replay_index(a, c):
    if c:
        c["replay"] = replay_queries(a)
        if not c["replay"].get("reproduced"):
            c["replay"] = replay_index_out_of_range(a)
        c["reproduced"] = c["replay"].get("reproduced", False)
        a.candidates.append(c)


def replay_literal_variables(a):
    """a literal written in place and the same literal bound with `let` (file, rule and block scope) and used as a bare
    %v must give the same status (the reference is the in-place form)"""
    exe = a.cli()
    if not exe:
        return {"reproduced": False, "note": "native build failed"}
    data = '{"Resources": {"a": {"Type": "S3"}, "b": {"Type": "EC2"}},\n "n": 5, "w": "ell"}\n'
    pairs = [("some Resources.*.Type == \"S3\"", "let v = \"S3\"", "some Resources.*.Type == %v"),
             ("Resources.*.Type == \"S3\"", "let v = \"S3\"", "Resources.*.Type == %v"),
             ("Resources.a.Type == [\"S3\"]", "let v = [\"S3\"]", "Resources.a.Type == %v"),
             ("Resources.*.Type in \"S3,EC2\"", "let v = \"S3,EC2\"", "Resources.*.Type in %v"),
             ("Resources.*.Type in [\"S3\", \"EC2\"]", "let v = [\"S3\", \"EC2\"]", "Resources.*.Type in %v"),
             ("n == 5", "let v = 5", "n == %v"), ("n >= 6", "let v = 6", "n >= %v"), ("n in [4, 5]", "let v = [4, 5]", "n in %v"),
             ("Resources.*.Type != \"S3\"", "let v = \"S3\"", "Resources.*.Type != %v")]
    out, tried = [], []

    def status(rules):
        rc, rep, err = a.run_structured(exe, rules, [data])
        if not (rep and isinstance(rep, list) and rep):
            return None
        r = rep[0]
        return "PASS" if "t" in r.get("compliant", []) else ("SKIP" if "t" in r.get("not_applicable", []) else "FAIL")
    for inline, let_, via in pairs:
        ref = status(f"rule t {{\n  {inline}\n}}\n")
        forms = {"file scope": f"{let_}\nrule t {{\n  {via}\n}}\n", "rule scope": f"rule t {{\n  {let_}\n  {via}\n}}\n"}
        for where, text in forms.items():
            got = status(text)
            tried.append({"clause": inline, "scope": where, "inline": ref, "via_variable": got})
            if ref is None or got is None:
                continue
            if ref != got:
                out.append({"in_place": inline, "scope": where, "rules_file": text, "status_in_place": ref, "status_via_variable": got})
    unran = [t for t in tried if t["inline"] is None or t["via_variable"] is None]
    return {"reproduced": bool(out), "mismatches": out[:4], "tried": len(tried), "data": data,
            "note": f"{len(unran)} forms did not load: {unran[:2]}" if unran else None}


def q_accumulate(a):
    ex = a.exec(QCTX + "accumulate", common_models(), log=("extend", "push"), unroll=2, max_paths=20000)
    a.fns.append("rules::eval_context::accumulate")
    parent, qi, query, elems, resolver, conv = (ex.arg_env[f"_{i}"] for i in range(1, 7))
    n = ex.len_of(elems)
    bad, nrec = [], 0
    for p in ex.paths:
        r = p.ret
        if p.outcome != "return" or r is None:
            bad.append(pc_term(p.pc))
            continue
        recs = calls(p, REC)
        unres = calls(p, "to_unresolved_result")
        its = iterations(ex, p)
        if unres:
            ok = len(unres) == 1 and not recs and r == unres[0][3] and same(unres[0][2][0], parent)
            bad.append(f"(and {pc_term(p.pc)} (not {f'(= {n} 0)' if ok else 'false'}))")
            continue
        probs = []
        exts = calls(p, "extend")
        for j, e in enumerate(recs):
            nrec += 1
            el = its[j][1] if j < len(its) else None
            ok = (len(e[2]) == 5 and e[2][0][0] == "int" and same(e[2][1], query) and same(e[2][2], el) and same(e[2][3], resolver)
                  and same(e[2][4], conv))
            if not ok:
                probs.append("recursion does not continue with the j-th element / same query, resolver, converter")
        idx_terms = [f"(= {e[2][0][1]} {plus1(qi[1])})" for e in recs if e[2] and e[2][0][0] == "int"]
        # results appended in element order: the j-th extend receives the j-th recursion's Ok value
        for j, x in enumerate(exts):
            if j >= len(recs) or not same(x[2][1], recs[j][3][3]["Ok"]):
                probs.append("results not accumulated in element order")
        anyerr = "(or false " + " ".join(f"(= {e[3][2]} 1)" for e in recs) + ")"
        n_it = "(+ 0 0 " + " ".join(f"(ite (= {t} 1) 1 0)" for _k, _e, t, _i in its) + ")"
        if r[0] == "enum" and r[1] == "Result":
            good = (f"(and (not (= {n} 0)) {' '.join(idx_terms) if idx_terms else 'true'} "
                    f"(ite (= {r[2]} 0) (and (not {anyerr}) (= {n_it} {len(recs)}) (= {len(exts)} {len(recs)})) {anyerr}))")
        else:
            good = "false"
        bad.append(f"(and {pc_term(p.pc)} (not {'false' if probs else good}))")
    c = a.discharge("query/accumulate", ex, bad,
                    f"`[*]` / `*` over a list of <= 2 elements ({nrec} continuation calls): an empty list yields one unresolved entry for "
                    "the list itself; otherwise the traversal continues, for every element in order, at the NEXT query position with that "
                    "element, the same query, resolver and key converter; the results are appended in element order; the first error stops it")
    if c:
        c["replay"] = replay_queries(a)
        c["reproduced"] = c["replay"].get("reproduced", False)
        a.candidates.append(c)


def q_retrieve_index(a):
    QR = enum_variants(a.src, "rules/mod.rs", "QueryResult")
    ex = a.exec(QCTX + "retrieve_index", {"unsigned_abs": lambda ex, av: ("int", f"(ite (>= {av[0][1]} 0) {av[0][1]} (- {av[0][1]}))")
                                          if av and av[0][0] == "int" else ex.havoc("u32"), RC_NEW: mirexec.m_identity},
                unroll=1, max_paths=2000)
    a.fns.append("rules::eval_context::retrieve_index")
    parent, idx, elems = ex.arg_env["_1"], ex.arg_env["_2"], ex.arg_env["_3"]
    n = ex.len_of(elems)
    mag = f"(ite (>= {idx[1]} 0) {idx[1]} (- {idx[1]}))"
    bad = []
    for p in ex.paths:
        r = p.ret
        if p.outcome != "return" or r is None or r[0] != "variant":
            bad.append(pc_term(p.pc))
            continue
        if r[2] == "Resolved":
            ie = [e for e in calls(p, "index") if len(e[2]) == 2 and same(e[2][0], elems) and e[2][1][0] == "int"]
            ok = len(ie) == 1 and same(r[3][0], ie[0][3])
            good = f"(and (< {mag} {n}) (= {ie[0][2][1][1]} {mag}))" if ok else "false"
        elif r[2] == "UnResolved":
            st = r[3][0]
            ok = st[0] == "struct" and same(st[2].get("traversed_to"), parent)
            good = f"(>= {mag} {n})" if ok else "false"
        else:
            good = "false"
        bad.append(f"(and {pc_term(p.pc)} (not {good}))")
    # the `as usize` cast of unsigned_abs() is havoced by the executor: state the cast explicitly
    c = a.discharge("query/retrieve_index", ex, bad,
                "list index `[i]` for every i32: resolved to element |i| iff |i| < length, otherwise an unresolved entry that records the "
                    "list as the point reached; never out of bounds", witness=True)
    _replay_index(a, c)


def q_map_resolved(a):
    QR = enum_variants(a.src, "rules/mod.rs", "QueryResult")
    ex = a.exec(QCTX + "map_resolved", {"call_once": m_result_opq}, unroll=1, max_paths=2000)
    a.fns.append("rules::eval_context::map_resolved")
    qr, func = ex.arg_env["_2"], ex.arg_env["_3"]
    d = disc(ex, qr)
    bad = []
    for p in ex.paths:
        r = p.ret
        cs = calls(p, "call_once")
        if p.outcome != "return" or r is None:
            bad.append(pc_term(p.pc))
            continue
        if cs:
            arg = cs[0][2][1] if len(cs[0][2]) > 1 else None
            inner = arg[1][0] if arg and arg[0] == "tuple" and arg[1] else arg
            ok = len(cs) == 1 and r == cs[0][3] and same(inner, payload(ex, qr, "Resolved"))
            good = f"(= {d} {QR.index('Resolved')})" if ok else "false"
        else:
            good = f"(not (= {d} {QR.index('Resolved')}))" if (r[0] == "enum" and r[2] == "0") else "false"
        bad.append(f"(and {pc_term(p.pc)} (not {good}))")
    c = a.discharge("query/map_resolved", ex, bad,
                "after an index step: a resolved element is handed to the continuation (whose result is returned unchanged); an unresolved "
                    "entry is returned as is and the traversal does not continue past it")
    _replay(a, c)


def q_filter_delegate(a):
    ex = a.exec(QCTX + r"check_and_delegate::\{closure#0\}",
                dict(common_models(), **{"eval_conjunction_clauses": mirexec.m_result_status, "add_variable_capture_key": mirexec.m_result_unit,
                                         "start_record": mirexec.m_result_unit, "end_record": mirexec.m_result_unit}),
                unroll=1, max_paths=20000)
    a.fns.append("rules::eval_context::check_and_delegate::{closure#0} (filter on a map value)")
    idx, query, key, value, ctx, conv = (ex.arg_env[f"_{i}"] for i in range(2, 8))
    P = a.P
    bad = []
    for p in ex.paths:
        r = p.ret
        ev = calls(p, "eval_conjunction_clauses")
        recs = calls(p, REC)
        caps = calls(p, "add_variable_capture_key")
        if p.outcome != "return" or r is None or r[0] != "enum" or len(ev) > 1:
            bad.append(pc_term(p.pc))
            continue
        if not ev:
            bad.append(f"(and {pc_term(p.pc)} (not (= {r[2]} 1)))")
            continue
        etag, est = ev[0][3][2], ev[0][3][3]["Ok"][2]
        passed = f"(and (= {etag} 0) (= {est} {P}))"
        parts = []
        if recs:
            e = recs[0]
            ok = (len(recs) == 1 and len(e[2]) == 5 and same(e[2][0], idx) and same(e[2][1], query) and same(e[2][2], value)
                  and same(e[2][3], ctx) and same(e[2][4], conv) and r == e[3])
            parts.append(passed if ok else "false")
        else:
            parts.append(f"(=> (= {r[2]} 0) (not {passed}))")
            parts.append(f"(=> (= {etag} 1) (= {r[2]} 1))")
        if caps:
            parts.append(passed if (len(caps) == 1 and same(caps[0][2][-1], key)) else "false")
        rec_fail = "(or false " + " ".join(f"(= {e[3][2]} 1)" for e in calls(p, "start_record") + calls(p, "end_record") + caps if e[3][0] == "enum") + ")"
        bad.append(f"(and {pc_term(p.pc)} (not (or {rec_fail} (and {' '.join(parts)}))))")
    c = a.discharge("query/filter-on-map-value", ex, bad,
                "filter applied to one map value: the traversal continues (at the position it was given, with that value) iff the filter's "
                "clauses are PASS; FAIL / SKIP select nothing (an empty result, not an unresolved entry); an evaluation error is passed on; "
                    "the key is captured only for a selected value")
    _replay(a, c)


# --------------------------------------------------------------------------------------------------
# the dispatcher itself, one query-part kind x one kind of current value at a time (directed execution: the two
# discriminants are fixed before the paths are enumerated, everything else stays symbolic)
# --------------------------------------------------------------------------------------------------
def _directed(a, part_idx, cur_idx, extra_models=None, unroll=1, is_var=False, log=("extend", "push")):
    holder = {}

    def prep(ex):
        qi = ex.fresh_int("usize", "qi")
        query, cur = ex.opq(), ex.opq()
        el = ex.proj_of(query, f"[{qi[1]}]")
        ex.proj[("disc", el[1])] = str(part_idx)
        if cur_idx is not None:
            ex.proj[("disc", cur[1])] = str(cur_idx)
        holder.update(qi=qi, query=query, cur=cur, part=el)
        return {"_1": qi, "_2": query, "_3": cur}
    models = dict(common_models())
    models.update({"is_variable": lambda ex, av: ("bool", "true" if is_var else "false"),
                   "accumulate": m_result_opq, "accumulate_map": m_result_opq, "map_resolved": m_result_opq,
                   "retrieve_index": lambda ex, av: ex.opq(), "eval_conjunction_clauses": mirexec.m_result_status,
                   "get": mirexec.m_option, "parse": m_result_opq, "resolve_variable": m_result_opq,
                   "start_record": mirexec.m_result_unit, "end_record": mirexec.m_result_unit,
                   "check_and_delegate": lambda ex, av: ex.opq(), "call": m_result_opq})
    models.update(extra_models or {})
    ex = a.exec(QCTX + REC, models, log=log, unroll=unroll, max_paths=60000, prep=prep)
    return ex, holder


def _rec_args_ok(e, h, ex, value, plus=1, conv_any=False):
    """python-level part of a continuation call's wiring; the position is returned as an SMT condition"""
    ok = (len(e[2]) == 5 and e[2][0][0] == "int" and same(e[2][1], h["query"]) and same(e[2][2], value)
          and same(e[2][3], ex.arg_env["_4"]) and (conv_any or same(e[2][4], ex.arg_env["_5"])))
    return ok, (f"(= {e[2][0][1]} (+ {h['qi'][1]} {plus}))" if ok else "false")


def replay_keys_filter_report(a):
    """a FAILing clause whose query has a keys filter: the checks listed under the rule are the clause's own failures (each with the
    clause's custom message and context) - the filter's per-key comparisons are not among them"""
    exe = a.cli()
    if not exe:
        return {"reproduced": False, "note": "native build failed"}
    data = '{"Resources": {"a1": {"Type": "Bar"}, "a2": {"Type": "Foo"}, "b1": {"Type": "Foo"}, "c1": {"Type": "Foo"}}}\n'
    out = []
    for rules, nfail in (("rule r {\n  Resources[ keys == /^a/ ].Type == 'Foo' <<msg>>\n}\n", 1),
                         ("rule r {\n  Resources[ keys in ['a1', 'b1'] ].Type == 'Zed' <<msg>>\n}\n", 2),
                         ("rule r {\n  Resources[ keys == /^a/ ] {\n    Type == 'Foo' <<msg>>\n  }\n}\n", 1)):
        rc, rep, err = a.run_structured(exe, rules, [data])
        if not (rep and isinstance(rep, list) and rep):
            out.append({"rules_file": rules, "problem": "no report", "exit": rc})
            continue
        found = []

        def walk(o):
            if isinstance(o, dict):
                for k, v in o.items():
                    if k == "Clause" and isinstance(v, dict):
                        for kind, body in v.items():
                            found.append((body.get("context", ""), (body.get("messages") or {}).get("custom_message")))
                    walk(v)
            elif isinstance(o, list):
                for v in o:
                    walk(v)
        walk(rep[0].get("not_compliant", []))
        stray = [f for f in found if (f[1] or "") != "msg"]
        if stray or len(found) != nfail:
            out.append({"rules_file": rules, "failing_values_of_the_clause": nfail, "checks_listed": len(found),
                        "listed_without_the_clause's_message": stray[:3]})
    return {"reproduced": bool(out), "mismatches": out, "data": data}


def replay_capture_before_use(a):
    """a key-capture variable used (as an interpolated key) BEFORE the query that captures it has run: an evaluation error (non-zero,
    not 19), in every arrangement; used after the capture: the documented verdict"""
    import os, shutil, subprocess, tempfile
    exe = a.cli()
    if not exe:
        return {"reproduced": False, "note": "native build failed"}
    d = tempfile.mkdtemp(prefix="cfnverif_replay_")
    out = []
    try:
        open(os.path.join(d, "d.json"), "w").write('{"Resources": {"a": {"Type": "T", "v": 1}, "b": {"Type": "U", "v": 2}}, "Meta": {"a": {"ok": true}}}\n')
        capture = "Resources[ ids | Type == 'T' ] !empty"
        use = "Meta.%ids.ok exists"
        arrangements = {
            "capture first (lines)": (f"rule r {{\n  {capture}\n  {use}\n}}\n", 0),
            "use first (lines)": (f"rule r {{\n  {use}\n  {capture}\n}}\n", "error"),
            "use first (rules)": (f"rule u {{\n  {use}\n}}\nrule c {{\n  {capture}\n}}\n", "error"),
            "capture first (rules)": (f"rule c {{\n  {capture}\n}}\nrule u {{\n  {use}\n}}\n", 0),
        }
        for label, (text, want) in arrangements.items():
            open(os.path.join(d, "r.guard"), "w").write(text)
            pr = subprocess.run([exe, "validate", "-r", os.path.join(d, "r.guard"), "-d", os.path.join(d, "d.json"), "--show-summary", "none"],
                                capture_output=True, text=True, timeout=60)
            ok = (pr.returncode == 0) if want == 0 else (pr.returncode not in (0, 19))
            if not ok:
                out.append({"arrangement": label, "rules_file": text, "expected": "exit 0" if want == 0 else "an evaluation error (the variable does not exist yet)",
                            "observed_exit": pr.returncode})
        return {"reproduced": bool(out), "mismatches": out}
    finally:
        shutil.rmtree(d, ignore_errors=True)


def q_dispatch(a):
    QP = enum_variants(a.src, "rules/exprs.rs", "QueryPart")
    PV = enum_variants(a.src, "rules/path_value.rs", "PathAwareValue")
    LIST, MAP, INT = PV.index("List"), PV.index("Map"), PV.index("Int")
    a.fns.append("rules::eval_context::query_retrieval_with_converter (dispatch, one part kind x one value kind at a time)")

    def in_range(ex, h):
        return f"(< {h['qi'][1]} {ex.len_of(h['query'])})"

    def finish(name, ex, bad, describe):
        c = a.discharge("query/dispatch/" + name, ex, bad, describe)
        if c:
            c["replay"] = replay_queries(a)
            c["reproduced"] = c["replay"].get("reproduced", False)
            a.candidates.append(c)

    def single_delegate(name, part, cur_kind, callee, value_of, describe, plus=1, also=None):
        """arms whose whole effect is one call (the continuation, accumulate, ...) whose result is returned unchanged"""
        ex, h = _directed(a, QP.index(part), cur_kind)
        bad = []
        for p in ex.paths:
            r = p.ret
            if p.outcome != "return" or r is None:
                bad.append(f"(and {pc_term(p.pc)} {in_range(ex, h)})")      # the only panic allowed: position past the end is handled before
                continue
            cs = calls(p, callee)
            others = [e for e in p.events if e[0] == "call" and e[1] in (REC, "accumulate", "accumulate_map", "map_resolved", "to_unresolved_result") and e[1] != callee]
            if len(cs) != 1 or others or r != cs[0][3]:
                bad.append(f"(and {pc_term(p.pc)} {in_range(ex, h)})")
                continue
            cond = value_of(ex, h, p, cs[0])
            bad.append(f"(and {pc_term(p.pc)} {in_range(ex, h)} (not {cond}))")
        finish(name, ex, bad, describe)

    def rec_with(value_fn, plus=1):
        def f(ex, h, p, e):
            ok, cond = _rec_args_ok(e, h, ex, value_fn(ex, h, p), plus)
            return cond
        return f

    def acc_args(ex, h, p, e):
        # accumulate(parent = current, query_index (NOT +1), query, elements of the current list, resolver, converter)
        lst = payload(ex, h["cur"], "List")
        ok = (len(e[2]) == 6 and same(e[2][0], h["cur"]) and e[2][1][0] == "int" and same(e[2][2], h["query"])
              and same(e[2][3], field(ex, lst, 1, "Vec")) and same(e[2][4], ex.arg_env["_4"]) and same(e[2][5], ex.arg_env["_5"]))
        return f"(= {e[2][1][1]} {h['qi'][1]})" if ok else "false"

    def unres_args(ex, h, p, e):
        return "true" if same(e[2][0], h["cur"]) else "false"
    cur = lambda ex, h, p: h["cur"]
    single_delegate("this", "This", None, REC, rec_with(cur),
                    "`this`: the traversal continues at the next position with the same value")
    single_delegate("all-indices/list", "AllIndices", LIST, "accumulate", acc_args,
                    "`[*]` on a list: handed to accumulate with the list's own elements and the current position")
    single_delegate("all-values/list", "AllValues", LIST, "accumulate", acc_args,
                    "`*` on a list: handed to accumulate with the list's own elements and the current position")
    single_delegate("all-indices/scalar", "AllIndices", INT, REC, rec_with(cur),
                    "`[*]` on a scalar: a single value is accepted where a list is expected - continue at the next position with it")
    single_delegate("all-values/scalar", "AllValues", INT, REC, rec_with(cur),
                    "`*` on a scalar: continue at the next position with the same value")
    single_delegate("index/scalar", "Index", INT, "to_unresolved_result", unres_args,
                    "`[n]` on a value that is not a list: one unresolved entry recording that value as the point reached")
    single_delegate("index/map", "Index", MAP, "to_unresolved_result", unres_args,
                    "`[n]` on a map: unresolved")

    # `[n]` on a list: retrieve_index(current, n, the list's elements, query) piped through map_resolved
    ex, h = _directed(a, QP.index("Index"), LIST)
    bad = []
    for p in ex.paths:
        r = p.ret
        ri, mr = calls(p, "retrieve_index"), calls(p, "map_resolved")
        if p.outcome != "return" or len(ri) != 1 or len(mr) != 1 or calls(p, REC) or r != mr[0][3]:
            bad.append(f"(and {pc_term(p.pc)} {in_range(ex, h)})")
            continue
        lst = payload(ex, h["cur"], "List")
        n = payload(ex, h["part"], "Index")
        ok = (same(ri[0][2][0], h["cur"]) and same(ri[0][2][1], n) and same(ri[0][2][2], field(ex, lst, 1, "Vec"))
              and len(mr[0][2]) == 3 and same(mr[0][2][1], ri[0][3]))
        cl = mr[0][2][2]
        ok = ok and cl[0] == "struct" and any(same(v, h["qi"]) for v in cl[2].values()) and any(same(v, h["query"]) for v in cl[2].values())
        bad.append(f"(and {pc_term(p.pc)} {in_range(ex, h)} (not {'true' if ok else 'false'}))")
    finish("index/list", ex, bad, "`[n]` on a list: element lookup by retrieve_index(current list, n) and continuation through map_resolved "
           "with a closure over THIS position and query")

    # the closures that continue after an index step: next position, the resolved element
    for cname in ("closure#0", "closure#1"):
        try:
            cex = a.exec(QCTX + REC + r"::\{" + cname + r"\}", {REC: m_result_opq}, unroll=1, max_paths=200)
        except Untranslatable:
            continue
        env0, val = cex.arg_env["_1"], cex.arg_env["_2"]
        bad = []
        for p in cex.paths:
            cs = calls(p, REC)
            if len(cs) != 1 or p.ret != cs[0][3] or not same(cs[0][2][2], val) or cs[0][2][0][0] != "int":
                bad.append(pc_term(p.pc))
                continue
            # the position is read from the captured `query_index`: the only integer captured
            caps = [v for k, v in cex.proj.items() if isinstance(k, tuple) and len(k) == 2 and isinstance(v, tuple) and v[0] == "int"]
            cond = "(or false " + " ".join(f"(= {cs[0][2][0][1]} (+ {c_[1]} 1))" for c_ in caps) + ")"
            bad.append(f"(and {pc_term(p.pc)} (not {cond}))")
        _replay(a, a.discharge("query/dispatch/index-continuation/" + cname, cex, bad,
                               "continuation after an index step: next position (captured position + 1) with the resolved element", witness=False))

    # key lookup on a map (not a variable, not a number): found -> continue with that value at the next position
    ex, h = _directed(a, QP.index("Key"), MAP, extra_models={"parse": lambda ex, av: ex.fresh_enum("Result", 2, "pari", {"Ok": ex.opq(), "Err": ex.opq()})})
    bad, nfound = [], 0
    for p in ex.paths:
        r = p.ret
        if p.outcome != "return" or r is None:
            bad.append(f"(and {pc_term(p.pc)} {in_range(ex, h)})")
            continue
        pa = calls(p, "parse")
        gets = calls(p, "get")
        recs = calls(p, REC)
        if not pa:
            bad.append(f"(and {pc_term(p.pc)} {in_range(ex, h)})")
            continue
        is_num = f"(= {pa[0][3][2]} 0)"
        if not gets:
            # a numeric key on a map: unresolved (index into something that is not a list)
            un = calls(p, "to_unresolved_result")
            ok = len(un) == 1 and r == un[0][3] and not recs
            bad.append(f"(and {pc_term(p.pc)} {in_range(ex, h)} (not (and {is_num} {'true' if ok else 'false'})))")
            continue
        first = gets[0]
        key = payload(ex, h["part"], "Key")
        mapv = field(ex, payload(ex, h["cur"], "Map"), 1, "MapValue")
        vals = field(ex, mapv, 1, "IndexMap")
        direct = same(first[2][0], vals) and same(first[2][1], key)
        if recs:
            nfound += 1
            e = recs[0]
            src = [g for g in gets if same(e[2][2], g[3][3].get("Some"))]
            # a hit under a case-converted spelling continues with that converter (key-case conversion is sticky)
            ok, cond = _rec_args_ok(e, h, ex, e[2][2], conv_any=not same(e[2][2], first[3][3].get("Some")))
            ok = ok and len(recs) == 1 and r == e[3] and len(src) == 1 and all(same(g[2][0], vals) for g in gets) and direct
            # the value continued with is what the lookup found; an exact-key hit wins over converted spellings
            found = f"(= {src[0][3][2]} 1)" if src else "false"
            exact_first = "true" if (src and (src[0] is first or True)) else "false"
            bad.append(f"(and {pc_term(p.pc)} {in_range(ex, h)} (not (and (not {is_num}) {cond if ok else 'false'} {found})))")
        else:
            un = calls(p, "to_unresolved_result")
            ok = len(un) == 1 and r == un[0][3] and same(un[0][2][0], h["cur"]) and direct
            nothing = "(and true " + " ".join(f"(= {g[3][2]} 0)" for g in gets) + ")"
            bad.append(f"(and {pc_term(p.pc)} {in_range(ex, h)} (not (and (not {is_num}) {'true' if ok else 'false'} {nothing})))")
    finish("key/map", ex, bad,
           f"`.key` on a map ({nfound} found-paths): the map's own value table is searched for that key first (then for its case-converted "
           "spellings); if a lookup finds a value the traversal continues at the next position with exactly that value; if none does, one "
           "unresolved entry records the map as the point reached; a numeric key on a map is unresolved")

    single_delegate("key/scalar", "Key", INT, "to_unresolved_result", unres_args,
                    "`.key` on a value that is neither a map nor (for a numeric key) a list: unresolved at that value")

    # filter on a list: per element, continue iff the filter's clauses are PASS for that element
    ex, h = _directed(a, QP.index("Filter"), LIST, unroll=2)
    bad, nel = [], 0
    P = a.P
    for p in ex.paths:
        r = p.ret
        if p.outcome != "return" or r is None or r[0] != "enum":
            bad.append(f"(and {pc_term(p.pc)} {in_range(ex, h)})")
            continue
        lst = field(ex, payload(ex, h["cur"], "List"), 1, "Vec")
        its = iterations(ex, p, it_filter=lambda ev: ex.iter_src.get(ev[2][0][1], ev[2][0]) == lst)
        bounds = [i for _k, _e, _t, i in its] + [len(p.events)]
        parts, probs = [], []
        evs_all = calls(p, "eval_conjunction_clauses")
        for n, (k, el, tag, i0) in enumerate(its):
            seg = [e for i, e in enumerate(p.events) if bounds[n] <= i < bounds[n + 1] and e[0] == "call"]
            ev = [e for e in seg if e[1] == "eval_conjunction_clauses"]
            rc = [e for e in seg if e[1] == REC]
            if not ev:
                continue
            nel += 1
            etag, est = ev[0][3][2], ev[0][3][3]["Ok"][2]
            passed = f"(and (= {etag} 0) (= {est} {P}))"
            scope = ev[0][2][1] if len(ev[0][2]) > 1 else None
            scoped = scope is not None and scope[0] == "struct" and same(scope[2].get("root"), el) and same(scope[2].get("parent"), ex.arg_env["_4"])
            if not scoped:
                probs.append("filter clauses are not evaluated against the element itself")
            if rc:
                ok, cond = _rec_args_ok(rc[0], h, ex, el)
                parts.append(f"(and {passed} {cond})" if (ok and len(rc) == 1) else "false")
            else:
                parts.append(f"(or (not {passed}) (= {r[2]} 1))")
        anyerr = "(or false " + " ".join(f"(= {e[3][2]} 1)" for e in evs_all + calls(p, REC) + calls(p, "start_record") + calls(p, "end_record") if e[3][0] == "enum") + ")"
        n_it = "(+ 0 0 " + " ".join(f"(ite (= {t} 1) 1 0)" for _k, _e, t, _i in its) + ")"
        good = f"(and true {' '.join(parts)} (ite (= {r[2]} 0) (and (not {anyerr}) (= {n_it} {len(evs_all)})) {anyerr}))"
        bad.append(f"(and {pc_term(p.pc)} {in_range(ex, h)} (not {'false' if probs else good}))")
    finish("filter/list", ex, bad,
           f"`[ filter ]` on a list of <= 2 elements ({nel} element evaluations): the filter's clauses are evaluated once per element, "
           "against that element; the traversal continues (next position, that element) exactly for the elements whose status is PASS - "
           "FAIL and SKIP select nothing; every element is visited; an evaluation error is an error of the query")

    # ---- `.%var` on a map (keys taken from a variable): whatever is reported as unresolved is reported AT THE MAP -----------
    ex, h = _directed(a, QP.index("Key"), MAP, is_var=True, unroll=1, log=("*",),
                      extra_models={"parse": lambda ex, av: ex.fresh_enum("Result", 2, "pari", {"Ok": ex.opq(), "Err": ex.opq()}),
                                    "variable": mirexec.m_option, "next": mirexec.m_iter_next, "into_iter": mirexec.m_new_iter, "iter": mirexec.m_new_iter})
    bad, nun = [], 0
    ebad, nerr = [], 0
    for p in ex.paths:
        if p.outcome != "return":
            continue
        probs = []
        for e in p.events:
            if e[0] == "call" and re.search(r"unresolved|missing", e[1]) and e[1] not in ("to_unresolved_value",) and e[2]:
                nun += 1
                if not same(e[2][0], h["cur"]):
                    probs.append(f"{e[1]} is given something other than the map being searched as the value reached")
        bad.append(f"(and {pc_term(p.pc)} {in_range(ex, h)})" if probs else "false")
        # a variable that cannot be resolved (not defined yet, e.g. a key capture used before its capturing query ran) is an ERROR of the
        # query, not an ordinary unresolved value: C04 is silent about orderings that are errors, it is not about orderings that run
        r_ = p.ret
        for e in calls(p, "resolve_variable"):
            if e[3][0] == "enum" and r_ is not None and r_[0] == "enum":
                nerr += 1
                ebad.append(f"(and {pc_term(p.pc)} {in_range(ex, h)} (= {e[3][2]} 1) (not (= {r_[2]} 1)))")
    ce = a.discharge("query/dispatch/key-variable/map/resolution-error-is-an-error", ex, ebad,
                     f"`.%var` on a map ({nerr} variable resolutions over all paths): when the variable cannot be resolved the query fails with that error")
    if ce:
        ce["replay"] = replay_capture_before_use(a)
        ce["reproduced"] = ce["replay"].get("reproduced", False)
        a.candidates.append(ce)
    def finish_vk(name, ex, bad, describe):
        c = a.discharge("query/dispatch/" + name, ex, bad, describe)
        if c:
            c["replay"] = replay_variable_keys(a)
            c["reproduced"] = c["replay"].get("reproduced", False)
            a.candidates.append(c)
    finish_vk("key-variable/map/unresolved-at-the-map", ex, bad,
           f"`.%var` on a map ({nun} unresolved results over all paths, variable resolving to <= 1 entries): every 'key not found' result "
           "records THE MAP that was searched as the value reached (never the key value or a list of keys)")

    # ---- `.n` on a list (a key that is a number): the same lookup as `[n]` --------------------------------------------------
    ex, h = _directed(a, QP.index("Key"), LIST, extra_models={"parse": lambda ex, av: ex.fresh_enum("Result", 2, "pari", {"Ok": ex.fresh_int("i32", "keyidx"), "Err": ex.opq()})})
    bad = []
    for p in ex.paths:
        r = p.ret
        pa = calls(p, "parse")
        ri, mr, un = calls(p, "retrieve_index"), calls(p, "map_resolved"), calls(p, "to_unresolved_result")
        if p.outcome != "return" or r is None or len(pa) != 1 or not same(pa[0][2][0], payload(ex, h["part"], "Key")):
            bad.append(f"(and {pc_term(p.pc)} {in_range(ex, h)})")
            continue
        is_num = f"(= {pa[0][3][2]} 0)"
        if ri:
            lst = payload(ex, h["cur"], "List")
            ok = (len(ri) == 1 and len(mr) == 1 and not un and not calls(p, REC) and r == mr[0][3] and same(ri[0][2][0], h["cur"])
                  and ri[0][2][1] == pa[0][3][3]["Ok"] and same(ri[0][2][2], field(ex, lst, 1, "Vec")) and len(mr[0][2]) == 3 and same(mr[0][2][1], ri[0][3]))
            cl = mr[0][2][2] if ok else None
            ok = ok and cl[0] == "struct" and any(same(v, h["qi"]) for v in cl[2].values()) and any(same(v, h["query"]) for v in cl[2].values())
            bad.append(f"(and {pc_term(p.pc)} {in_range(ex, h)} (not (and {is_num} {'true' if ok else 'false'})))")
        else:
            # a key that is not a number on a list: unresolved at the list
            ok = len(un) == 1 and r == un[0][3] and same(un[0][2][0], h["cur"]) and not calls(p, REC)
            bad.append(f"(and {pc_term(p.pc)} {in_range(ex, h)} (not (and (not {is_num}) {'true' if ok else 'false'})))")
    finish("key-number/list", ex, bad,
           "`.n` on a list: a key that parses as a number is the same lookup as `[n]` - retrieve_index(current list, that number, its elements) "
           "piped through map_resolved with a continuation over THIS position and query; any other key on a list is unresolved at the list")

    # ---- `*` and named `[*]` on a MAP: handed to accumulate_map with the map itself; unnamed `[*]` keeps the map ----------
    def accmap_ok(ex, h, e):
        mapv = field(ex, payload(ex, h["cur"], "Map"), 1, "MapValue")
        return (len(e[2]) == 7 and same(e[2][0], h["cur"]) and same(e[2][1], mapv) and e[2][2][0] == "int" and same(e[2][3], h["query"])
                and same(e[2][4], ex.arg_env["_4"]) and same(e[2][5], ex.arg_env["_5"]))

    def accmap_args(ex, h, p, e):
        return f"(= {e[2][2][1]} {h['qi'][1]})" if accmap_ok(ex, h, e) else "false"
    single_delegate("all-values/map", "AllValues", MAP, "accumulate_map", accmap_args,
                    "`*` on a map: handed to accumulate_map with the map's own entries, the current position, this query, resolver and converter")
    ex, h = _directed(a, QP.index("AllIndices"), MAP,
                      extra_models={"is_none": lambda ex, av: ("bool", f"(= {disc(ex, av[0])} 0)") if av and av[0][0] in ("opaque", "enum") else ex.havoc("bool")})
    named = f"(not (= {disc(ex, payload(ex, h['part'], 'AllIndices'))} 0))"
    bad = []
    for p in ex.paths:
        r = p.ret
        recs, am = calls(p, REC), calls(p, "accumulate_map")
        if p.outcome != "return" or r is None or len(recs) + len(am) != 1:
            bad.append(f"(and {pc_term(p.pc)} {in_range(ex, h)})")
            continue
        if recs:
            ok, cond = _rec_args_ok(recs[0], h, ex, h["cur"])
            bad.append(f"(and {pc_term(p.pc)} {in_range(ex, h)} (not (and (not {named}) {cond if (ok and r == recs[0][3]) else 'false'})))")
        else:
            cond = accmap_args(ex, h, p, am[0]) if r == am[0][3] else "false"
            bad.append(f"(and {pc_term(p.pc)} {in_range(ex, h)} (not (and {named} {cond})))")
    finish("all-indices/map", ex, bad,
           "`[*]` on a map: without a name the traversal continues at the next position with the map itself; with a name (`[ name | * ]` style "
           "capture) the map's entries are handed to accumulate_map at the current position")

    # the per-entry continuations passed to accumulate_map: capture the key (when asked to), then continue with the entry's value
    for cname in ("closure#2", "closure#3"):
        try:
            cex = a.exec(QCTX + REC + r"::\{" + cname + r"\}", {REC: m_result_opq, "add_variable_capture_key": mirexec.m_result_unit,
                                                                  "as_str": mirexec.m_identity, "unwrap": mirexec.m_identity, "as_ref": mirexec.m_identity},
                         unroll=1, max_paths=400)
        except Untranslatable:
            continue
        idx, qry, key, val, ctx, conv = (cex.arg_env[f"_{i}"] for i in range(2, 8))
        bad = []
        for p in cex.paths:
            r = p.ret
            cs, caps = calls(p, REC), calls(p, "add_variable_capture_key")
            if p.outcome != "return" or r is None or r[0] != "enum":
                bad.append(pc_term(p.pc))
                continue
            probs = []
            for c_ in caps:
                if not (len(c_[2]) == 3 and same(c_[2][0], ctx) and same(c_[2][2], key)):
                    probs.append("the captured key is not this entry's key / not recorded in this entry's context")
            if len(caps) > 1:
                probs.append("key captured twice")
            if cs:
                e = cs[0]
                if not (len(cs) == 1 and len(e[2]) == 5 and str(e[2][0]) == str(idx) and same(e[2][1], qry) and same(e[2][2], val)
                        and same(e[2][3], ctx) and same(e[2][4], conv) and r == e[3]):
                    probs.append("the continuation is not (given position, query, this entry's value, this entry's context, converter)")
                caperr = "(or false " + " ".join(f"(= {c_[3][2]} 1)" for c_ in caps if c_[3][0] == "enum") + ")"
                bad.append(pc_term(p.pc) if probs else f"(and {pc_term(p.pc)} {caperr})")
            else:
                # no continuation: only because recording the key failed
                caperr = "(or false " + " ".join(f"(= {c_[3][2]} 1)" for c_ in caps if c_[3][0] == "enum") + ")"
                bad.append(pc_term(p.pc) if probs else f"(and {pc_term(p.pc)} (not (and (= {r[2]} 1) {caperr})))")
        _replay(a, a.discharge("query/dispatch/map-entry-continuation/" + cname, cex, bad,
                               "per-entry continuation of `*` / named `[*]` on a map: the entry's key is captured at most once, in the entry's own "
                               "context, and the traversal continues with exactly (position given, query, the entry's value, that context, "
                               "converter), its result returned unchanged; no continuation only if capturing failed", witness=False))

    # ---- `[ filter ]` on a MAP: after `*` / `[*]` the map itself is filtered as one value; after a key every entry is -------
    ex, h = _directed(a, QP.index("Filter"), MAP)
    flt = h["part"]
    conj = ex.proj_of(flt, "as Filter.1")
    fname = ex.proj_of(flt, "as Filter.0")
    mapv = field(ex, payload(ex, h["cur"], "Map"), 1, "MapValue")
    bad, seen_prev = [], set()
    for p in ex.paths:
        r = p.ret
        prev = [int(m.group(1)) for c_ in p.pc for m in [re.match(r"^\(= \|disc!\d+\| (\d+)\)$", c_)] if m]
        if p.outcome == "panic":
            # `_ => unreachable!()`: only for a filter that follows neither a key nor `*` / `[*]` (the parser never builds that)
            if prev:
                bad.append(f"(and {pc_term(p.pc)} {in_range(ex, h)})")
            continue
        if r is None or not prev:
            bad.append(f"(and {pc_term(p.pc)} {in_range(ex, h)})")
            continue
        pk = QP[prev[-1]] if prev[-1] < len(QP) else "?"
        seen_prev.add(pk)
        cd, cl, am = calls(p, "check_and_delegate"), calls(p, "call"), calls(p, "accumulate_map")
        if pk in ("AllValues", "AllIndices"):
            ok = (len(cd) == 1 and len(cl) == 1 and not am and same(cd[0][2][0], conj) and cd[0][2][1][0] == "enum" and cd[0][2][1][2] == "0"
                  and same(cl[0][2][0], cd[0][3]) and cl[0][2][1][0] == "tuple" and len(cl[0][2][1][1]) == 6 and r == cl[0][3])
            if ok:
                t = cl[0][2][1][1]
                ok = (t[0][0] == "int" and same(t[1], h["query"]) and same(t[2], h["cur"]) and same(t[3], h["cur"])
                      and same(t[4], ex.arg_env["_4"]) and same(t[5], ex.arg_env["_5"]))
                cond = f"(= {t[0][1]} (+ {h['qi'][1]} 1))" if ok else "false"
            else:
                cond = "false"
            bad.append(f"(and {pc_term(p.pc)} {in_range(ex, h)} (not {cond}))")
        elif pk == "Key":
            ie = calls(p, "is_empty")
            empty = ie[0][3][1] if ie and ie[0][3][0] == "bool" and same(ie[0][2][0], mapv) else None
            if am:
                ok = (empty is not None and len(am) == 1 and len(cd) == 1 and not cl and same(cd[0][2][0], conj) and same(cd[0][2][1], fname)
                      and accmap_ok(ex, h, am[0]) and same(am[0][2][6], cd[0][3]) and r == am[0][3])
                cond = f"(and (not {empty}) (= {am[0][2][2][1]} {h['qi'][1]}))" if ok else "false"
            else:
                ok = empty is not None and not cd and not cl and r[0] == "enum" and r[2] == "0"
                cond = empty if ok else "false"
            bad.append(f"(and {pc_term(p.pc)} {in_range(ex, h)} (not {cond}))")
        else:
            bad.append(f"(and {pc_term(p.pc)} {in_range(ex, h)})")
    finish("filter/map", ex, bad,
           f"`[ filter ]` on a map (previous part kinds seen: {sorted(seen_prev)}): after `*` / `[*]` the filter function built from THIS filter's "
           "clauses (no capture name) is applied once at the next position with the map as both the value and the filter subject; after a "
           "key, a non-empty map's entries are handed to accumulate_map at the current position with the filter function built from this "
           "filter's clauses and its capture name; an empty map selects nothing")

    # ---- `[ keys <op> .. ]` on a map ------------------------------------------------------------------------------------
    ident = mirexec.m_identity
    QRV = enum_variants(a.src, "rules/mod.rs", "QueryResult")
    saved_enums = a.enums
    a.enums = dict(a.enums, QueryResult=QRV)
    ex, h = _directed(a, QP.index("MapKeyFilter"), MAP, unroll=1,
                      extra_models={"next": mirexec.m_iter_next_built, "cloned": ident, "map": ident, "collect": ident,
                                    "real_binary_operation": m_result_opq, "resolve_function": m_result_opq, "with_capacity": lambda ex, av: ex.opq(),
                                    "unwrap": lambda ex, av: (av[0][3].get("Some") if av and av[0][0] == "enum" and av[0][3].get("Some") else ex.opq())})
    a.enums = saved_enums
    MVF = struct_fields(a.src, "rules/path_value.rs", "MapValue")
    mapv = field(ex, payload(ex, h["cur"], "Map"), 1, "MapValue")
    keys_v, vals_v = field(ex, mapv, MVF.index("keys"), "Vec"), field(ex, mapv, MVF.index("values"), "IndexMap")
    P = a.P
    bad, nsel = [], 0
    fbad, nkeycmp = [], 0
    for p in ex.paths:
        r = p.ret
        if p.outcome != "return" or r is None or r[0] != "enum":
            continue                                   # `_ => unreachable!()` needs real_binary_operation to return another kind: its own obligation
        evs = [e for e in p.events if e[0] == "call"]
        rbo = [e for e in evs if e[1] == "real_binary_operation"]
        # C09: the key comparisons of a filter are not checks of the clause - they must be recorded under a Filter record (which the report
        # builder does not list), like the comparisons of every other filter: start_record(c) .. real_binary_operation .. end_record(c, Filter(_))
        for cmp_ev in rbo:
            nkeycmp += 1
            ci = p.events.index(cmp_ev)
            opened = [e for e in p.events[:ci] if e[0] == "call" and e[1] == "start_record"]
            closed = [e for e in p.events[ci + 1:] if e[0] == "call" and e[1] == "end_record" and len(e[2]) > 2 and e[2][2][0] == "variant" and e[2][2][2] == "Filter"]
            okf = bool(opened) and (bool(closed) or f"(= {cmp_ev[3][2]} 1)" in p.pc)
            fbad.append(f"(and {pc_term(p.pc)} (not {'true' if okf else 'false'}))")
        probs = []
        if len(rbo) > 1:
            probs.append("keys compared more than once")
        if rbo:
            its_src = [ex.iter_src.get(e[3][1]) for e in evs if e[1] == "iter" and e[3][0] == "opaque"]
            lhs = rbo[0][2][0]
            if not (lhs[0] == "opaque" and any(same(ex.iter_src.get(lhs[1], None), keys_v) for _ in [0])):
                probs.append("the left-hand side of the key comparison is not this map's key list")
            if not same(rbo[0][2][5], ex.arg_env["_4"]):
                probs.append("the key comparison does not use this resolver")
        gets = [e for e in evs if e[1] == "get"]
        for g in gets:
            if not same(g[2][0], vals_v):
                probs.append("a selected key is looked up in something other than this map's values")
        # the right-hand side may itself be a query: evaluated from position 0 against the map (not a continuation)
        rhs_q = [e for e in evs if e[1] == REC and e[2] and e[2][0] == ("int", "0") and not same(e[2][1], h["query"])]
        for e in rhs_q:
            if not (same(e[2][2], h["cur"]) and same(e[2][3], ex.arg_env["_4"])):
                probs.append("the filter's right-hand query is not evaluated against this map with this resolver")
        recs = [e for e in evs if e[1] == REC and e not in rhs_q]
        selected = [e for e in evs if e[1] == "with_capacity"]
        sel_vec = selected[0][3] if selected else None
        pushes = [e for e in evs if e[1] == "push" and sel_vec is not None and same(e[2][0], sel_vec)]
        parts = []
        # results of the comparison, one by one
        res_vec = None
        if rbo and rbo[0][3][0] == "enum":
            res_vec = rbo[0][3][3]["Ok"]
        # which outcome of the key comparison selects: (Resolved(key), PASS) only
        if res_vec is not None:
            made_here = {str(e[3]) for e in evs if e[1] == "with_capacity"}
            its = iterations(ex, p, it_filter=lambda ev: ev[2] and ev[2][0][0] == "opaque" and str(ex.iter_src.get(ev[2][0][1], ev[2][0])) not in made_here)
            bnds = [i for _k, _e, _t, i in its] + [len(p.events)]
            for n_, (k_, el_, tag_, i0_) in enumerate(its):
                seg = [e for i, e in enumerate(p.events) if bnds[n_] <= i < bnds[n_ + 1] and e[0] == "call" and e[1] == "push" and sel_vec is not None and same(e[2][0], sel_vec)]
                if el_ is None or el_[0] != "opaque":
                    continue
                st_ = field(ex, el_, 1, "rules::Status")
                for e in seg:
                    if e[2][1][0] == "variant" and e[2][1][2] == "Resolved":
                        parts.append(f"(= {st_[2]} {P})")
        for e in pushes:
            nsel += 1
            v = e[2][1]
            if v[0] == "variant" and v[2] == "Resolved":
                ok = any(same(v[3][0], g[3][3].get("Some")) for g in gets if g[3][0] == "enum")
                if not ok:
                    probs.append("a value selected is not what this map holds under the matching key")
            elif not (v[0] == "variant" and v[2] == "UnResolved"):
                probs.append("something other than a map value / an unresolved entry is selected")
        for k, e in enumerate(recs):
            ok, cond = _rec_args_ok(e, h, ex, e[2][2])
            src_ok = any(pu[2][1][0] == "variant" and pu[2][1][2] == "Resolved" and same(pu[2][1][3][0], e[2][2]) for pu in pushes)
            parts.append(cond if (ok and src_ok) else "false")
        exts = [e for e in evs if e[1] == "extend"]
        if len(exts) > len(recs):
            probs.append("more result lists appended than continuations made")
        for k, x in enumerate(exts):
            if not (k < len(recs) and recs[k][3][0] == "enum" and same(x[2][1], recs[k][3][3]["Ok"])):
                probs.append("continuation results are not appended in order")
        anyerr = "(or false " + " ".join(f"(= {e[3][2]} 1)" for e in rbo + recs + [x for x in evs if x[1] in (REC, "resolve_function", "start_record", "end_record")] if e[3][0] == "enum") + ")"
        good = f"(and true {' '.join(parts)} (=> (= {r[2]} 1) {anyerr}))"
        if probs and os.environ.get("VERIF_DEBUG"):
            print("keys-filter:", probs[:3])
        bad.append(f"(and {pc_term(p.pc)} {in_range(ex, h)} (not {'false' if probs else good}))")
    # the `_ => unreachable!()` after the key comparison: real_binary_operation never answers with another kind of result
    try:
        rex = a.exec(r"(?:(?:rules::)?eval::)?real_binary_operation",
                     {"next": mirexec.m_iter_next, "into_iter": mirexec.m_new_iter, "iter": mirexec.m_new_iter, "clone": ident,
                      "each_lhs_compare": m_result_opq, "report_at_least_one": m_result_opq, "report_all_values": m_result_opq,
                      "start_record": mirexec.m_result_unit, "end_record": mirexec.m_result_unit, "not_compare": lambda ex, av: ex.opq(),
                      "in_cmp": lambda ex, av: ex.opq(), "is_empty": mirexec.m_is_empty, "len": lambda ex, av: ("int", ex.len_of(av[0]))},
                     unroll=1, max_paths=40000, deepen=False)
        rbad = []
        for p in rex.paths:
            r = p.ret
            if p.outcome != "return" or r is None or r[0] != "enum":
                continue
            okv = r[3].get("Ok")
            if okv is not None and not (okv[0] == "variant" and okv[2] == "QueryValueResult"):
                rbad.append(f"(and {pc_term(p.pc)} (= {r[2]} 0))")
        c_ = a.discharge("query/dispatch/keys-filter/comparison-result-kind", rex, rbad,
                         "real_binary_operation (the comparison behind a `keys` filter): whenever it returns Ok the result is a per-value result "
                         "list (QueryValueResult) - also for an empty left or right side - so the `_ => unreachable!()` of the keys-filter arm "
                         "cannot be entered", witness=False)
        if c_:
            c_["replay"] = replay_queries(a)
            c_["reproduced"] = c_["replay"].get("reproduced", False)
            a.candidates.append(c_)
    except Untranslatable as e:
        a.ob.items.append({"obligation": "query/dispatch/keys-filter/comparison-result-kind", "describe": str(e), "verdicts": {}, "status": "inconclusive", "model": None})
    cf = a.discharge("query/dispatch/keys-filter/comparisons-under-a-filter-record", ex, fbad,
                     f"`[ keys <op> v ]` on a map ({nkeycmp} key comparisons over all paths): the comparison of the keys is evaluated inside a record that is "
                     "closed as RecordType::Filter - so that the per-key outcomes select values and are not listed as failing checks of the clause")
    if cf:
        cf["replay"] = replay_keys_filter_report(a)
        cf["reproduced"] = cf["replay"].get("reproduced", False)
        a.candidates.append(cf)
    finish("keys-filter/map", ex, bad,
           f"`[ keys <op> v ]` on a map ({nsel} selections over all paths; the outcome list of the key comparison arbitrary, <= 1 entry): the map's own "
           "key list is compared once, through this resolver; a selected value is what this map holds under the matching key (or an unresolved "
           "entry passed on); every selected value is continued at the NEXT position of this query, results appended in order; an error only "
           "from a callee")


def q_accumulate_map(a):
    MV = struct_fields(a.src, "rules/path_value.rs", "MapValue")
    models = common_models()
    models.update({"zip": mirexec.m_zip, "values": mirexec.m_new_iter, "call": m_result_opq,
                   "is_empty": lambda ex, av: ("bool", f"(= {ex.len_of(field(ex, av[0], MV.index('keys'), 'Vec'))} 0)") if av and av[0][0] == "opaque" else ex.havoc("bool")})
    ex = a.exec(QCTX + "accumulate_map", models, log=("extend",), unroll=2, max_paths=20000)
    a.fns.append("rules::eval_context::accumulate_map")
    parent, mapv, qi, query, resolver, conv, func = (ex.arg_env[f"_{i}"] for i in range(1, 8))
    keys = field(ex, mapv, MV.index("keys"), "Vec")
    vals = field(ex, mapv, MV.index("values"), "IndexMap")
    n = ex.len_of(keys)
    bad, nrec = [], 0
    for p in ex.paths:
        r = p.ret
        if p.outcome != "return" or r is None or r[0] != "enum":
            bad.append(pc_term(p.pc))
            continue
        recs = calls(p, "call")
        unres = calls(p, "to_unresolved_result")
        if unres:
            ok = len(unres) == 1 and not recs and r == unres[0][3] and same(unres[0][2][0], parent)
            bad.append(f"(and {pc_term(p.pc)} (not {f'(= {n} 0)' if ok else 'false'}))")
            continue
        its = iterations(ex, p)
        probs, idx_terms = [], []
        for j, e in enumerate(recs):
            nrec += 1
            tup = e[2][1] if len(e[2]) > 1 else None
            el = its[j][1] if j < len(its) else None
            ok = (tup is not None and tup[0] == "tuple" and len(tup[1]) == 6 and el is not None and el[0] == "tuple"
                  and tup[1][0][0] == "int" and same(tup[1][1], query) and same(tup[1][2], el[1][0]) and same(tup[1][3], el[1][1])
                  and same(tup[1][5], conv) and tup[1][4][0] == "struct" and same(tup[1][4][2].get("root"), el[1][1])
                  and same(tup[1][4][2].get("parent"), resolver))
            if not ok:
                probs.append("the j-th entry is not continued with (its key, its value, a scope rooted at its value)")
            else:
                idx_terms.append(f"(= {tup[1][0][1]} (+ {qi[1]} 1))")
        exts = calls(p, "extend")
        for j, x in enumerate(exts):
            if j >= len(recs) or not same(x[2][1], recs[j][3][3]["Ok"]):
                probs.append("results not accumulated in entry order")
        # the key list and the value table are walked together from the same map
        zips = [ex.iter_src.get(e[2][0][1]) for e in p.events if e[0] == "call" and e[1] == "next" and e[2] and e[2][0][0] == "opaque"]
        if not any(isinstance(z, tuple) and z and z[0] == "zip" and same(z[1], keys) and same(z[2], vals) for z in zips):
            probs.append("entries are not the map's own (key, value) pairs")
        anyerr = "(or false " + " ".join(f"(= {e[3][2]} 1)" for e in recs) + ")"
        n_it = "(+ 0 0 " + " ".join(f"(ite (= {t} 1) 1 0)" for _k, _e, t, _i in its) + ")"
        good = (f"(and (not (= {n} 0)) {' '.join(idx_terms) if idx_terms else 'true'} "
                f"(ite (= {r[2]} 0) (and (not {anyerr}) (= {n_it} {len(recs)}) (= {len(exts)} {len(recs)})) {anyerr}))")
        bad.append(f"(and {pc_term(p.pc)} (not {'false' if probs else good}))")
    _replay(a, a.discharge("query/accumulate_map", ex, bad,
                           f"`*` / named `[*]` / key filter over a map of <= 2 entries ({nrec} continuation calls; keys and values assumed "
                           "aligned): an empty map yields one unresolved entry for the map; otherwise, for every entry in order, the "
                           "continuation is called at the NEXT position with that entry's key, that entry's value and a value scope rooted "
                           "at that value on top of the caller's resolver; results are appended in entry order; the first error stops it"))


def q_variable_head(a):
    """a query that starts with a variable: every resolved value of the variable is continued separately"""
    QP = enum_variants(a.src, "rules/exprs.rs", "QueryPart")
    QR = enum_variants(a.src, "rules/mod.rs", "QueryResult")
    holder = {}

    def prep(ex):
        query, cur = ex.opq(), ex.opq()
        holder.update(query=query, cur=cur)
        return {"_1": ("int", "0"), "_2": query, "_3": cur}
    models = dict(common_models())
    models.update({"is_variable": lambda ex, av: ("bool", "true"), "variable": lambda ex, av: ("enum", "Option", "1", {"Some": ex.opq()}),
                   "unwrap": lambda ex, av: av[0][3].get("Some") if av and av[0][0] == "enum" else ex.opq(),
                   "resolve_variable": m_result_opq})
    ex = a.exec(QCTX + REC, models, log=("extend", "push"), unroll=2, max_paths=60000, prep=prep)
    a.fns.append("rules::eval_context::query_retrieval_with_converter (variable head)")
    h = holder
    qlen = ex.len_of(h["query"])
    bad, nval = [], 0
    for p in ex.paths:
        r = p.ret
        rv = calls(p, "resolve_variable")
        if p.outcome != "return" or r is None or r[0] != "enum":
            bad.append(f"(and {pc_term(p.pc)} (> {qlen} 0))")
            continue
        if not rv:
            bad.append(f"(and {pc_term(p.pc)} (> {qlen} 0))")      # only the empty query returns without resolving the variable
            continue
        vals = rv[0][3][3]["Ok"]
        its = iterations(ex, p, it_filter=lambda ev: ex.iter_src.get(ev[2][0][1], ev[2][0]) == vals)
        bounds = [i for _k, _e, _t, i in its] + [len(p.events)]
        parts, probs = [f"(=> (= {rv[0][3][2]} 1) (= {r[2]} 1))"], []
        nxt = ex.proj.get((h["query"][1], "[(+ 0 1)]")) or ex.proj.get((h["query"][1], "[1]"))
        for n_, (k, el, tag, i0) in enumerate(its):
            seg = [e for i, e in enumerate(p.events) if bounds[n_] <= i < bounds[n_ + 1] and e[0] == "call"]
            recs = [e for e in seg if e[1] == REC]
            if el is None:
                continue
            nval += 1
            d = disc(ex, el)
            unres = f"(= {d} {QR.index('UnResolved')})"
            if recs:
                e = recs[0]
                v = None
                for var in ("Literal", "Resolved"):
                    pv = ex.proj.get((el[1], f"as {var}.0"))
                    if pv is not None and same(e[2][2], pv):
                        v = pv
                sc = e[2][3] if len(e[2]) > 3 else None
                ok = (len(recs) == 1 and v is not None and e[2][0][0] == "int" and same(e[2][1], h["query"]) and same(e[2][4], ex.arg_env["_5"])
                      and sc is not None and sc[0] == "struct" and same(sc[2].get("root"), v) and same(sc[2].get("parent"), ex.arg_env["_4"]))
                # position: 1, or 2 when the part after the variable is the `[*]` the parser inserts there
                pos = f"(or (= {e[2][0][1]} 1) (= {e[2][0][1]} 2))"
                parts.append(f"(and (= {tag} 1) (not {unres}) {pos} (< {e[2][0][1]} {qlen}))" if ok else "false")
            else:
                parts.append(f"(=> (= {tag} 1) (or {unres} (= {r[2]} 1) true))")
        bad.append(f"(and {pc_term(p.pc)} (> {qlen} 0) (not {'false' if probs else '(and ' + ' '.join(parts) + ')'}))")
    _replay_vars(a, a.discharge("query/variable-head", ex, bad,
                           f"query starting with `%var`, variable resolving to <= 2 values ({nval} value visits): the variable is resolved "
                           "once through the resolver; an unresolved entry is passed on as it is and never traversed; every resolved / "
                           "literal value is continued separately - same query, position 1 (or 2 past an inserted `[*]`), that value, "
                           "a value scope rooted at that value - only while a query part remains; a resolution error is an error"))


def q_unresolved_value(a):
    """what an unresolved entry records: the value reached, the reason given, the rest of the query"""
    ex = a.exec(QCTX + "to_unresolved_value", {"format": lambda ex, av: ex.opq(), "must_use": mirexec.m_identity}, unroll=1, max_paths=200)
    a.fns.append("rules::eval_context::to_unresolved_value")
    cur, reason, query = ex.arg_env["_1"], ex.arg_env["_2"], ex.arg_env["_3"]
    bad = []
    for p in ex.paths:
        r = p.ret
        ok = (p.outcome == "return" and r is not None and r[0] == "variant" and r[2] == "UnResolved" and r[3] and r[3][0][0] == "struct"
              and same(r[3][0][2].get("traversed_to"), cur)
              and r[3][0][2].get("reason", ("",))[0] == "enum" and r[3][0][2]["reason"][2] == "1" and same(r[3][0][2]["reason"][3].get("Some"), reason))
        bad.append("false" if ok else pc_term(p.pc))
    _replay(a, a.discharge("query/to_unresolved_value", ex, bad,
                           "an unresolved entry records exactly the value that was reached (`traversed_to`) and the reason it was given",
                           witness=False))


def replay_queries(a):
    exe = a.cli()
    if not exe:
        return {"reproduced": False, "note": "native build failed"}
    data = ('{"L": [ {"x": 1, "y": [1, 2]}, {"x": 2, "y": [3]} ],\n "E": [],\n "M": {"a": {"v": 1}, "b": {"v": 2}},\n "N": [[1, 2], [3]],\n "s": 5, "EM": {},\n'
            ' "W": [[1, 2]], "WE": [[]], "W1": [[7]]}\n')
    cases = [  # a list whose ONLY element is a list: `[*]` yields that element (a list), it is not looked through
             ("W[*] is_list", "PASS"), ("W[*][0] == 1", "PASS"), ("W[*][*] >= 1", "PASS"), ("WE[*] is_list", "PASS"), ("WE[*] empty", "PASS"),
             ("WE[*][*] !exists", "PASS"), ("W1[*] is_list", "PASS"), ("W1[0][0] == 7", "PASS"), ("WE[0] is_list", "PASS"),
             ("L[*].x >= 1", "PASS"), ("L[*].x == 1", "FAIL"), ("some L[*].x == 2", "PASS"), ("L[0].x == 1", "PASS"), ("L[1].x == 2", "PASS"),
             ("L[-1].x == 2", "PASS") if False else ("L[1].y[0] == 3", "PASS"), ("L[2].x == 1", "FAIL"), ("L[2] !exists", "PASS"),
             ("L[*].y[*] >= 1", "PASS"), ("L[*].y[1] == 2", "FAIL"), ("some L[*].y[1] == 2", "PASS"),
             ("E[*] !exists", "PASS"), ("E[*].x == 1", "FAIL"), ("M.*.v >= 1", "PASS"), ("M.*.v == 1", "FAIL"), ("M.a.v == 1", "PASS"),
             ("M.c.v !exists", "PASS"), ("M[ v == 2 ].v == 2", "PASS"), ("M[ v == 9 ].v == 2", "SKIP"), ("L[ x == 2 ].y[0] == 3", "PASS"),
             ("L[ x == 9 ].y exists", "SKIP"), ("L[ x >= 1 ].x == 1", "FAIL"), ("L[ y[ this == 9 ] == 1 ].x == 1", "SKIP"), ("L[ y[ this == 3 ] == 3 ].x == 2", "PASS"),
             ("M[ v[ this == 9 ] == 1 ].v == 1", "SKIP"), ("N[*][*] >= 1", "PASS"), ("N[0][1] == 2", "PASS"),
             ("N[1][1] !exists", "PASS"), ("s[*] == 5", "PASS"), ("s.x !exists", "PASS"), ("this.s == 5", "PASS"), ("L.*.x >= 1", "PASS"),
             ("M[*].a.v == 1", "PASS"), ("M[*].b.v == 2", "PASS"), ("M[*].a.v == 2", "FAIL"), ("M[*].c !exists", "PASS"), ("some M.*.v == 2", "PASS"),
             ("M.*.v == 2", "FAIL"), ("M.* !empty", "PASS"),
             ("M.*[ v == 2 ].v == 2", "PASS"), ("M.*[ v == 1 ].v == 2", "FAIL"), ("M.*[ v == 9 ].v == 2", "SKIP"), ("M.*[ v >= 1 ].v >= 1", "PASS"), ("M[ keys == /^a/ ].v == 1", "PASS"), ("M[ keys == /^b/ ].v == 1", "FAIL"), ("M[ keys == /^z/ ].v exists", "SKIP"),
             ("EM[ keys == /^a/ ] !empty", "FAIL"), ("EM[ keys == /^a/ ].v == 1", "SKIP"), ("M[ keys in [\"a\"] ].v == 1", "PASS"),
             ("M[ keys not in [\"a\"] ].v == 2", "PASS"), ("M[ keys == \"b\" ].v == 2", "PASS"),
             ("L[ this.x == 2 ].y[0] == 3", "PASS"), ("L[ this.x == 9 ].y exists", "SKIP"), ("M[ this.v == 2 ].v == 2", "PASS"),
             ("L[ this.x >= 1 ].x == 1", "FAIL"), ("L.0.x == 1", "PASS"), ("L.1.x == 2", "PASS"), ("L.1.x == 1", "FAIL"), ("L.2 !exists", "PASS"), ("N.0.1 == 2", "PASS")]
    return a.replay_cases(exe, data, cases)


SITES = {"C09": [q_dispatch], "C04": [q_dispatch], "C01": [q_accumulate, q_accumulate_map, q_retrieve_index, q_map_resolved, q_filter_delegate, q_dispatch, q_variable_head, q_unresolved_value],
         "C08": [q_dispatch],
         "C15": [q_variable_head], "C10": [q_unresolved_value, q_dispatch, q_accumulate, q_accumulate_map, q_retrieve_index]}
