def run_for_property(prop, src, tier):
    return None
