"""MIR -> SMT-LIB2 cross-check for the loop-free integer/enum kernels (DESIGN.md section 1, 'second engine').

The current working tree's MIR is dumped with the nightly compiler (`-Zunpretty=mir`), the bodies of a few
named functions are symbolically executed path by path (all paths of the acyclic CFG; inputs are SMT
variables), and each obligation `precondition => property(inputs, result)` is negated and given to BOTH
z3 and cvc5. unsat from both = holds for every input; sat = concrete counterexample (reported as a
violation after it has been replayed through a direct evaluation of the same MIR paths = 'model replay',
and - for get_exit_code/Status::and - is also what the Kani harness of the same function decides);
anything else (unknown, `(error`, disagreement, untranslatable MIR) = inconclusive.

Translatable subset: locals of integer / bool / C-like-enum / Result<scalar, opaque> type; statements
`_x = copy|move _y`, `const`, Eq/Ne/Lt/Le/Gt/Ge, `discriminant(..)`, enum constructors, `(_y as V).0`;
terminators goto / switchInt / return / unreachable / panic (= reaching it is a separate obligation) /
calls to functions listed as uninterpreted (their result is a fresh symbolic value).
"""
import os, re, subprocess, time, fcntl, shutil

VERIF = os.path.dirname(os.path.dirname(os.path.abspath(__file__)))
CACHE = os.path.join(VERIF, ".cache", "mir")
VENDOR = os.path.join(VERIF, ".cache", "vendor")


class Untranslatable(Exception):
    pass


# ------------------------------------------------------------------------------------------------
def dump_mir(src):
    """src = scratch copy of the current working tree (already rsync'ed by the driver)."""
    os.makedirs(CACHE, exist_ok=True)
    lock = open(os.path.join(CACHE, ".lock"), "w")
    fcntl.flock(lock, fcntl.LOCK_EX)
    try:
        msrc = os.path.join(CACHE, "src")
        subprocess.check_call(["rsync", "-rlpc", "--delete", "--exclude", "/target", "--exclude", "/guard/src/verif_harness",
                               os.path.join(src, "guard", "src") + "/", os.path.join(msrc, "guard", "src") + "/"]
                              ) if os.path.exists(msrc) else shutil.copytree(src, msrc, ignore=shutil.ignore_patterns("target", "verif_harness"))
        # the driver appended #[cfg(kani)] lines to some module files; they are inert without cfg(kani)
        os.makedirs(os.path.join(msrc, ".cargo"), exist_ok=True)
        with open(os.path.join(msrc, ".cargo", "config.toml"), "w") as f:
            f.write('[source.crates-io]\nreplace-with = "vendored-sources"\n'
                    f'[source.vendored-sources]\ndirectory = "{VENDOR}"\n[net]\noffline = true\n')
        lib = os.path.join(msrc, "guard", "src", "lib.rs")
        os.utime(lib, None)
        env = dict(os.environ)
        env["RUSTFLAGS"] = "-A warnings -A dangerous_implicit_autorefs"
        env["CARGO_TARGET_DIR"] = os.path.join(CACHE, "target")
        env["CARGO_NET_OFFLINE"] = "true"
        env.pop("RUSTUP_TOOLCHAIN", None)
        p = subprocess.run(["cargo", "+nightly", "rustc", "--offline", "--lib", "--", "-Zunpretty=mir",
                            "-C", "debug-assertions=off", "-C", "overflow-checks=on"],
                           cwd=os.path.join(msrc, "guard"), env=env, stdout=subprocess.PIPE, stderr=subprocess.PIPE,
                           text=True, timeout=1200)
        if "fn " not in p.stdout:
            raise Untranslatable("MIR dump failed: " + p.stderr[-500:])
        return p.stdout
    finally:
        fcntl.flock(lock, fcntl.LOCK_UN)


def find_fn(mir, header_re, first_arg_re=""):
    m = re.search(r"^fn " + header_re + r"\(" + first_arg_re + r".*?\) -> .*? \{$", mir, re.M)
    if not m:
        raise Untranslatable(f"function matching /{header_re}/ not found in MIR")
    start = m.start()
    end = mir.index("\n}\n", start) + 3
    return mir[start:end]


def parse_fn(text):
    """-> (header, locals{name:type}, blocks{bbN: [lines]})"""
    lines = text.splitlines()
    header = lines[0]
    locs = {}
    for m in re.finditer(r"_(\d+): ([^,)]+(?:<[^>]*>)?[^,)]*)", header[: header.rindex("->")]):
        locs["_" + m.group(1)] = m.group(2).strip()
    locs["_0"] = header[header.rindex("->") + 2: -1].strip()
    blocks, cur = {}, None
    for ln in lines[1:]:
        s = ln.strip()
        m = re.match(r"let (?:mut )?(_\d+): (.*);$", s)
        if m:
            locs[m.group(1)] = m.group(2)
            continue
        m = re.match(r"(bb\d+)(?: \(cleanup\))?: \{$", s)
        if m:
            cur = m.group(1)
            blocks[cur] = []
            continue
        if s == "}":
            cur = None
            continue
        if cur and s and not s.startswith(("debug ", "scope ", "let ")):
            blocks[cur].append(s)
    return header, locs, blocks


# ------------------------------------------------------------------------------------------------
# symbolic values: ("int", term) / ("bool", term) / ("enum", ty, tag_term, payload{variant: value})
# ------------------------------------------------------------------------------------------------
class Sym:
    def __init__(self, consts, enums, uninterp):
        self.consts = consts        # name -> int
        self.enums = enums          # type-name suffix -> [variants]
        self.uninterp = uninterp    # callee name -> constructor of a fresh symbolic value
        self.decls = []
        self.n = 0
        self.side = []          # range constraints of havoc'ed values
        self.havoc_mode = False
        self.asserts = []       # (path condition, failing condition, message) of MIR assert terminators

    def fresh(self, sort, hint="v"):
        self.n += 1
        name = f"{hint}!{self.n}"
        self.decls.append(f"(declare-const |{name}| {sort})")
        return f"|{name}|"


def int_lit(v):
    return str(v) if v >= 0 else f"(- {-v})"


def enum_variants(sym, ty):
    for k, v in sym.enums.items():
        if ty.endswith(k):
            return v
    return None


INT_RANGES = {"usize": (0, 2**64 - 1), "u64": (0, 2**64 - 1), "u32": (0, 2**32 - 1), "u16": (0, 2**16 - 1), "u8": (0, 255),
              "isize": (-2**63, 2**63 - 1), "i64": (-2**63, 2**63 - 1), "i32": (-2**31, 2**31 - 1), "i16": (-2**15, 2**15 - 1),
              "i8": (-128, 127)}


def havoc(sym, ty=None):
    """fresh unconstrained value (havoc mode): int of the local's type if known, otherwise opaque"""
    if ty in INT_RANGES:
        v = sym.fresh("Int", "hv")
        lo, hi = INT_RANGES[ty]
        sym.side.append(f"(and (<= {int_lit(lo)} {v}) (<= {v} {int_lit(hi)}))")
        return ("int", v)
    if ty == "bool":
        return ("bool", sym.fresh("Bool", "hb"))
    return ("opaque",)


def eval_operand(sym, env, locs, op):
    if getattr(sym, "havoc_mode", False):
        try:
            return _eval_operand(sym, env, locs, op)
        except Untranslatable:
            return ("opaque",)
    return _eval_operand(sym, env, locs, op)


def _eval_operand(sym, env, locs, op):
    op = op.strip()
    m = re.match(r"^(?:copy|move) (.*)$", op)
    if m:
        return eval_place(sym, env, locs, m.group(1).strip())
    m = re.match(r"^\((_\d+)\.(\d+): (\w+)\)$", op)
    if m:
        return eval_place(sym, env, locs, op)
    m = re.match(r"^const (-?\d+)_[iu](?:8|16|32|64|size)$", op)
    if m:
        return ("int", int_lit(int(m.group(1))))
    m = re.match(r"^const (true|false)$", op)
    if m:
        return ("bool", m.group(1))
    m = re.match(r"^const ([iu](?:8|16|32|64|size))::(MIN|MAX)$", op)
    if m:
        lo, hi = INT_RANGES[m.group(1)]
        return ("int", int_lit(lo if m.group(2) == "MIN" else hi))
    m = re.match(r"^const (?:[\w:<>]+::)?(\w+)$", op)
    if m and m.group(1) in sym.consts:
        return ("int", int_lit(sym.consts[m.group(1)]))
    raise Untranslatable(f"operand {op!r}")


def eval_place(sym, env, locs, place):
    place = place.strip()
    m = re.match(r"^\(\*(_\d+)\)$", place)          # deref of a reference argument: refs are transparent
    if m:
        place = m.group(1)
    m = re.match(r"^\(\((_\d+) as (\w+)\)\.0: .*\)$", place)   # enum payload projection
    if m:
        base = env.get(m.group(1))
        if not base or base[0] != "enum":
            raise Untranslatable(f"projection on non-enum {place}")
        if m.group(2) not in base[3]:
            raise Untranslatable(f"no payload for variant {m.group(2)}")
        return base[3][m.group(2)]
    m = re.match(r"^\((_\d+)\.(\d+): (\w+)\)$", place)      # tuple field, e.g. (_28.1: bool)
    if m:
        base = env.get(m.group(1))
        if base and base[0] == "tuple":
            return base[1][int(m.group(2))]
        if getattr(sym, "havoc_mode", False):
            return havoc(sym, m.group(3))
        raise Untranslatable(f"tuple field of non-tuple {place}")
    if re.match(r"^_\d+$", place):
        if place not in env:
            if getattr(sym, "havoc_mode", False):
                return havoc(sym, locs.get(place))
            raise Untranslatable(f"use of unassigned local {place}")
        return env[place]
    raise Untranslatable(f"place {place!r}")


BINOPS = {"Eq": "=", "Lt": "<", "Le": "<=", "Gt": ">", "Ge": ">="}


def eval_rvalue(sym, env, locs, dst, rv):
    rv = rv.strip()
    m = re.match(r"^(Eq|Ne|Lt|Le|Gt|Ge)\((.*), (.*)\)$", rv)
    if m:
        a = eval_operand(sym, env, locs, m.group(2))
        b = eval_operand(sym, env, locs, m.group(3))
        if a[0] != b[0] or a[0] == "enum":
            raise Untranslatable(f"binop on {a[0]},{b[0]}")
        if m.group(1) == "Ne":
            return ("bool", f"(not (= {a[1]} {b[1]}))")
        return ("bool", f"({BINOPS[m.group(1)]} {a[1]} {b[1]})")
    m = re.match(r"^(Add|Sub|Mul)WithOverflow\((.*), (.*)\)$", rv)
    if m:
        a = eval_operand(sym, env, locs, m.group(2))
        b = eval_operand(sym, env, locs, m.group(3))
        ty = locs.get(dst, "")
        tm = re.match(r"^\((\w+), bool\)$", ty)
        if a[0] == "int" and b[0] == "int" and tm and tm.group(1) in INT_RANGES:
            lo, hi = INT_RANGES[tm.group(1)]
            opn = {"Add": "+", "Sub": "-", "Mul": "*"}[m.group(1)]
            exact = f"({opn} {a[1]} {b[1]})"
            ovf = f"(or (< {exact} {int_lit(lo)}) (> {exact} {int_lit(hi)}))"
            return ("tuple", [("int", exact), ("bool", ovf)])
        raise Untranslatable("checked arithmetic on non-integers")
    m = re.match(r"^Not\((.*)\)$", rv)
    if m:
        a = eval_operand(sym, env, locs, m.group(1))
        if a[0] != "bool":
            raise Untranslatable("Not on non-bool")
        return ("bool", f"(not {a[1]})")
    m = re.match(r"^discriminant\((.*)\)$", rv)
    if m:
        v = eval_place(sym, env, locs, m.group(1))
        if v[0] != "enum":
            if getattr(sym, "havoc_mode", False):
                return ("int", sym.fresh("Int", "disc"))
            raise Untranslatable("discriminant of non-enum")
        return ("int", v[2])
    # Result constructors
    m = re.match(r"^std::result::Result::<.*>::(Ok|Err)\((.*)\)$", rv)
    if m:
        payload = eval_operand(sym, env, locs, m.group(2))
        return ("enum", "Result", "0" if m.group(1) == "Ok" else "1", {m.group(1): payload})
    # C-like enum variant
    m = re.match(r"^([\w:]+)::(\w+)$", rv)
    if m:
        vs = enum_variants(sym, m.group(1))
        if vs and m.group(2) in vs:
            return ("enum", m.group(1), str(vs.index(m.group(2))), {})
    # plain operand
    return eval_operand(sym, env, locs, rv)


def successors(blocks, bb):
    """normal-control-flow successors of a block (unwind edges ignored)"""
    if not blocks[bb]:
        return []
    t = blocks[bb][-1].rstrip(";")
    m = re.match(r"^goto -> (bb\d+)$", t)
    if m:
        return [m.group(1)]
    m = re.match(r"^switchInt\(.*\) -> \[(.*)\]$", t)
    if m:
        return [a.split(":")[1].strip() for a in m.group(1).split(",")]
    m = re.search(r"-> \[(?:return|success): (bb\d+)", t)
    if m:
        return [m.group(1)]
    return []


def shortest_paths_to(blocks, target, limit=8):
    """up to `limit` acyclic block sequences bb0 .. target, shortest first (BFS over simple paths)"""
    from collections import deque
    out, q = [], deque([["bb0"]])
    while q and len(out) < limit:
        pth = q.popleft()
        if pth[-1] == target:
            out.append(pth)
            continue
        if len(pth) > 120:
            continue
        for nx in successors(blocks, pth[-1]):
            if nx not in pth and nx in blocks:
                q.append(pth + [nx])
        if len(q) > 200000:
            break
    return out


def paths(sym, header, locs, blocks, args, guide=None):
    """Enumerate all CFG paths. Yields (path_condition_terms, outcome) where outcome is
    ('return', value) | ('panic', msg) | ('unreachable',)."""
    out = []
    stop_after_block = [False]

    def run(bb, env, pc, depth, seen_bbs=frozenset()):
        if depth > 400 or len(out) > 20000:
            raise Untranslatable("CFG too deep / too many paths")
        if guide is not None:
            # directed execution: only the block sequence `guide` is followed
            if depth >= len(guide) or guide[depth] != bb:
                return
            if depth == len(guide) - 1:
                stop_after_block[0] = True
        if sym.havoc_mode:
            if bb in seen_bbs:
                out.append((pc, ("cut-loop",)))     # bounded: every block at most once per path
                return
            seen_bbs = seen_bbs | {bb}
            _run = run
            def run_(b2, e2, p2, d2):
                return _run(b2, e2, p2, d2, seen_bbs)
        else:
            run_ = lambda b2, e2, p2, d2: run(b2, e2, p2, d2)
        env = dict(env)
        for st in blocks[bb]:
            st = st.rstrip(";")
            if st.startswith(("StorageLive", "StorageDead", "nop", "FakeRead", "PlaceMention", "AscribeUserType", "Retag", "Coverage")):
                continue
            if st == "return":
                out.append((pc, ("return", env.get("_0"))))
                return
            if st == "unreachable":
                out.append((pc, ("unreachable",)))
                return
            m = re.match(r"^goto -> (bb\d+)$", st)
            if m:
                return run_(m.group(1), env, pc, depth + 1)
            m = re.match(r"^switchInt\((.*)\) -> \[(.*)\]$", st)
            if m:
                v = eval_operand(sym, env, locs, m.group(1))
                ty = None
                pm = re.match(r"^(?:copy|move) (_\d+)$", m.group(1).strip())
                if pm:
                    ty = locs.get(pm.group(1))
                arms = [a.strip() for a in m.group(2).split(",")]
                seen = []
                for a in arms:
                    k, tgt = [x.strip() for x in a.split(":")]
                    if k == "otherwise":
                        cond = "true" if not seen else "(and " + " ".join(f"(not {c})" for c in seen) + ")"
                        run_(tgt, env, pc + [cond], depth + 1)
                    else:
                        kv = int(k)
                        if v[0] == "bool":
                            c = v[1] if kv != 0 else f"(not {v[1]})"
                        else:
                            if ty == "i8" and kv >= 128:
                                kv -= 256
                            c = f"(= {v[1]} {int_lit(kv)})"
                        seen.append(c)
                        run_(tgt, env, pc + [c], depth + 1)
                return
            m = re.match(r"^(_\d+) = (?:core::panicking::)?panic(?:_\w+)?\((.*)\) -> .*$", st)
            if m:
                out.append((pc, ("panic", m.group(2)[:60])))
                return
            m = re.match(r"^(_\d+) = ([\w:<>]+)\((.*)\) -> \[return: (bb\d+), unwind .*\]$", st)
            if m:
                callee = m.group(2).split("::")[-1]
                if callee not in sym.uninterp and not sym.havoc_mode:
                    raise Untranslatable(f"call to {m.group(2)} (function is no longer call-free)")
                if callee in sym.uninterp:
                    env[m.group(1)] = sym.uninterp[callee](sym)
                    return run_(m.group(4), env, pc, depth + 1)
            m = re.match(r"^assert\((!?)(?:move |copy )?(.*?), \"(.*?)\".*\) -> \[success: (bb\d+), unwind.*\]$", st)
            if m:
                c = eval_operand(sym, env, locs, m.group(2) if m.group(2).startswith("(") else "copy " + m.group(2))
                if c[0] != "bool":
                    c = havoc(sym, "bool")
                holds = f"(not {c[1]})" if m.group(1) == "!" else c[1]
                sym.asserts.append((list(pc), f"(not {holds})", m.group(3), bb))
                return run_(m.group(4), env, pc + [holds], depth + 1)
            if sym.havoc_mode:
                m = re.match(r"^drop\(.*\) -> \[return: (bb\d+), unwind.*\]$", st)
                if m:
                    return run_(m.group(1), env, pc, depth + 1)
                m = re.match(r"^(_\d+) = .*\) -> \[return: (bb\d+), unwind.*\]$", st)
                if m:                                   # any call: havoc the result, assume it returns
                    env[m.group(1)] = havoc(sym, locs.get(m.group(1)))
                    return run_(m.group(2), env, pc, depth + 1)
                if re.match(r"^.* -> \[return: (bb\d+), unwind.*\]$", st):
                    m = re.match(r"^.* -> \[return: (bb\d+), unwind.*\]$", st)
                    return run_(m.group(1), env, pc, depth + 1)
                if re.match(r"^.*\) -> unwind .*$", st) or st.startswith("resume") or st.startswith("unwind"):
                    out.append((pc, ("diverge",)))
                    return
            m = re.match(r"^(_\d+) = (.*)$", st)
            if m:
                if sym.havoc_mode:
                    try:
                        env[m.group(1)] = eval_rvalue(sym, env, locs, m.group(1), m.group(2))
                    except Untranslatable:
                        env[m.group(1)] = havoc(sym, locs.get(m.group(1)))
                else:
                    env[m.group(1)] = eval_rvalue(sym, env, locs, m.group(1), m.group(2))
                continue
            if sym.havoc_mode:
                continue                                # e.g. stores through projections: ignored (havoc on read)
            raise Untranslatable(f"statement {st!r}")
        raise Untranslatable(f"block {bb} has no terminator")

    run("bb0", args, [], 0)
    return out


# ------------------------------------------------------------------------------------------------
# solver access
# ------------------------------------------------------------------------------------------------
SOLVERS = [("z3", ["/usr/bin/z3", "-in", "-T:60"]), ("cvc5", ["cvc5", "--lang", "smt2", "--tlimit=60000", "--produce-models"])]


def solve(script):
    """-> {solver: ('unsat'|'sat'|'unknown'|'error', model_text)}"""
    res = {}
    for name, cmd in SOLVERS:
        try:
            p = subprocess.run(cmd, input=script, stdout=subprocess.PIPE, stderr=subprocess.STDOUT, text=True, timeout=120)
            o = p.stdout
        except Exception as e:  # noqa
            res[name] = ("error", repr(e))
            continue
        if "(error" in o:
            res[name] = ("error", o[:300])
        else:
            first = o.strip().splitlines()[0] if o.strip() else "unknown"
            res[name] = (first if first in ("sat", "unsat", "unknown") else "error", o[:600])
    return res


def pc_term(pc):
    return "true" if not pc else "(and " + " ".join(pc) + ")"


def solve_batches(decls, assumptions, chunks, tlimit=240):
    """one solver process per solver, one (push)(assert chunk)(check-sat)(pop) per chunk.
    -> {solver: ([verdict per chunk], raw output)}"""
    hdr = "(set-logic ALL)\n" + "\n".join(decls) + "\n" + "\n".join(f"(assert {a})" for a in assumptions) + "\n"
    body = "".join(f"(push 1)\n(assert {c})\n(check-sat)\n(pop 1)\n" for c in chunks)
    res = {}
    for name, cmd in (("z3", ["/usr/bin/z3", "-in", f"-T:{tlimit}"]),
                      ("cvc5", ["cvc5", "--lang", "smt2", "--incremental", f"--tlimit={tlimit * 1000}"])):
        try:
            p = subprocess.run(cmd, input=hdr + body, stdout=subprocess.PIPE, stderr=subprocess.STDOUT, text=True,
                               timeout=tlimit + 60)
            o = p.stdout
        except Exception as e:  # noqa
            res[name] = (["error"] * len(chunks), repr(e))
            continue
        if "(error" in o:
            res[name] = (["error"] * len(chunks), o[:300])
            continue
        vs = [l.strip() for l in o.splitlines() if l.strip() in ("sat", "unsat", "unknown")]
        if len(vs) != len(chunks):
            vs = vs + ["error"] * (len(chunks) - len(vs))
        res[name] = (vs, o[:300])
    return res


class Obligations:
    def __init__(self):
        self.items = []   # dicts
        self.time = 0.0

    def witness_many(self, name, decls, assumptions, terms, describe, chunk=200):
        """vacuity witness over many path conditions: at least one chunk must be satisfiable for both solvers"""
        chunks = ["(or false " + " ".join(terms[i:i + chunk]) + ")" for i in range(0, max(1, len(terms)), chunk)]
        t = time.time()
        r = solve_batches(decls, assumptions, chunks)
        self.time += time.time() - t
        common = [i for i in range(len(chunks)) if all(r[k][0][i] == "sat" for k in r)]
        verdicts = {k: ("sat" if "sat" in vs else "error" if "error" in vs else "unsat") for k, (vs, raw) in r.items()}
        st = "witness-ok" if common else "inconclusive"
        self.items.append({"obligation": name, "describe": describe, "verdicts": verdicts, "status": st, "model": None,
                           "solver_output": {k: v[1][:300] for k, v in r.items()} if st == "inconclusive" else None})
        return st

    def check_many(self, name, decls, assumptions, bad_terms, describe, chunk=120):
        """the obligation holds iff every bad term is unsatisfiable; discharged chunk-wise in one incremental
        session per solver (a single disjunction of thousands of path terms stalls cvc5)"""
        chunks = ["(or false " + " ".join(bad_terms[i:i + chunk]) + ")" for i in range(0, max(1, len(bad_terms)), chunk)]
        t = time.time()
        r = solve_batches(decls, assumptions, chunks)
        verdicts = {}
        for k, (vs, raw) in r.items():
            verdicts[k] = ("sat" if "sat" in vs else "error" if "error" in vs else "unknown" if "unknown" in vs else "unsat")
        model, st = None, "inconclusive"
        if all(v == "unsat" for v in verdicts.values()):
            st = "proved"
        elif all(v == "sat" for v in verdicts.values()):
            # both solvers must agree on at least one satisfiable chunk
            common = [i for i in range(len(chunks)) if all(r[k][0][i] == "sat" for k in r)]
            if common:
                st = "refuted"
                script = "(set-logic ALL)\n(set-option :produce-models true)\n" + "\n".join(decls) + "\n" + \
                         "\n".join(f"(assert {a})" for a in assumptions) + f"\n(assert {chunks[common[0]]})\n(check-sat)\n(get-model)\n"
                model = solve(script)["z3"][1][:1500]
        self.time += time.time() - t
        self.items.append({"obligation": name, "describe": describe, "verdicts": verdicts, "status": st, "model": model,
                           "chunks": len(chunks), "path_terms": len(bad_terms),
                           "solver_output": {k: v[1][:300] for k, v in r.items()} if st == "inconclusive" else None})
        return st

    def check(self, name, decls, assumptions, negated_goal, describe, expect="proved"):
        script = "(set-logic ALL)\n(set-option :produce-models true)\n" + "\n".join(decls) + "\n" + \
                 "\n".join(f"(assert {a})" for a in assumptions) + f"\n(assert {negated_goal})\n(check-sat)\n"
        t = time.time()
        r = solve(script)
        if all(v[0] == "sat" for v in r.values()):
            r2 = solve(script + "(get-model)\n")   # counterexample values
            r = {k: (r[k][0], r2[k][1]) for k in r}
        self.time += time.time() - t
        verdicts = {k: v[0] for k, v in r.items()}
        if all(v == "unsat" for v in verdicts.values()):
            st = "proved"
        elif all(v == "sat" for v in verdicts.values()):
            st = "refuted"
        else:
            st = "inconclusive"
        if expect == "refuted":
            # vacuity witness: a deliberately false goal must come back refuted (sat), else the encoding is vacuous
            st = "witness-ok" if st == "refuted" else "inconclusive"
        self.items.append({"obligation": name, "describe": describe, "verdicts": verdicts, "status": st,
                           "model": r["z3"][1][:1500] if st == "refuted" else None,
                           "solver_output": {k: v[1][:300] for k, v in r.items()} if st == "inconclusive" else None})
        return st


# ------------------------------------------------------------------------------------------------
# the kernels
# ------------------------------------------------------------------------------------------------
def summary_term_int(pths):
    """ite-chain of the int return value over the paths; also returns the condition under which a panic /
    unreachable is hit."""
    ret, bad = None, []
    for pc, outc in pths:
        if outc[0] == "return":
            if outc[1] is None or outc[1][0] not in ("int", "bool"):
                raise Untranslatable("non-scalar return")
            ret = outc[1][1] if ret is None else f"(ite {pc_term(pc)} {outc[1][1]} {ret})"
        else:
            bad.append(pc_term(pc))
    return ret, ("false" if not bad else "(or " + " ".join(bad) + ")")


def summary_term_enum(pths):
    ret, bad = None, []
    for pc, outc in pths:
        if outc[0] == "return":
            if outc[1] is None or outc[1][0] != "enum":
                raise Untranslatable("non-enum return")
            ret = outc[1][2] if ret is None else f"(ite {pc_term(pc)} {outc[1][2]} {ret})"
        else:
            bad.append(pc_term(pc))
    return ret, ("false" if not bad else "(or " + " ".join(bad) + ")")


def consts_of(mir):
    c = {}
    for m in re.finditer(r"^const (?:[\w:]+::)?(\w+): i32 = const (-?\d+)_i32;", mir, re.M):
        c[m.group(1)] = int(m.group(2))
    return c


def check_get_exit_code(mir, ob):
    text = find_fn(mir, r"(?:commands::test::)?get_exit_code")
    header, locs, blocks = parse_fn(text)
    consts = consts_of(mir)
    for k in ("SUCCESS_STATUS_CODE", "TEST_ERROR_STATUS_CODE", "TEST_FAILURE_STATUS_CODE"):
        if k not in consts:
            raise Untranslatable(f"const {k} not found")
    S, E, F = consts["SUCCESS_STATUS_CODE"], consts["TEST_ERROR_STATUS_CODE"], consts["TEST_FAILURE_STATUS_CODE"]

    def apply(sym, a, b):
        return paths(sym, header, locs, blocks, {"_1": ("int", a), "_2": ("int", b)})

    dom = lambda v: f"(or (= {v} {S}) (= {v} {E}) (= {v} {F}))"
    sev = lambda v: f"(ite (= {v} {E}) 2 (ite (= {v} {F}) 1 0))"
    # obligation 1: one step = more severe of the two; no panic inside the domain
    sym = Sym(consts, {}, {})
    a, b = sym.fresh("Int", "exit"), sym.fresh("Int", "test")
    r, bad = summary_term_int(apply(sym, a, b))
    ob.check("get_exit_code/step", sym.decls, [dom(a), dom(b)],
             f"(not (and (not {bad}) (= {r} (ite (>= {sev(a)} {sev(b)}) {a} {b}))))",
             f"for exit,test in {{{S},{E},{F}}}: result is the more severe code (error {E} > failure {F} > success {S}) and unreachable!() is not hit")
    # obligation 2: fold over 3 codes from SUCCESS = most severe seen, order independent
    sym = Sym(consts, {}, {})
    c = [sym.fresh("Int", f"c{i}") for i in range(3)]

    def fold(order):
        acc, bads = str(S), []
        for i in order:
            r_, b_ = summary_term_int(apply(sym, acc, c[i]))
            acc, bads = r_, bads + [b_]
        return acc, "(or " + " ".join(bads) + ")"
    f1, b1 = fold([0, 1, 2])
    f2, b2 = fold([2, 0, 1])
    worst = f"(ite (or (= {c[0]} {E}) (= {c[1]} {E}) (= {c[2]} {E})) {E} (ite (or (= {c[0]} {F}) (= {c[1]} {F}) (= {c[2]} {F})) {F} {S}))"
    ob.check("get_exit_code/fold3", sym.decls, [dom(x) for x in c],
             f"(not (and (not {b1}) (not {b2}) (= {f1} {worst}) (= {f2} {worst})))",
             "fold over 3 per-file codes = 1 if any 1, else 7 if any 7, else 0; same for a permuted order")
    # obligation 3: the domain is closed (result stays in {0,1,7}) - keeps `_ => unreachable!()` dead
    sym = Sym(consts, {}, {})
    a, b = sym.fresh("Int", "exit"), sym.fresh("Int", "test")
    r, bad = summary_term_int(apply(sym, a, b))
    ob.check("get_exit_code/closed", sym.decls, [dom(a), dom(b)], f"(not {dom(r)})", "result stays inside {0,1,7}")
    ob.check("get_exit_code/witness", sym.decls, [dom(a), dom(b)], f"(not (= {r} {S}))",
             "vacuity witness: 'result is always 0' must be refuted", expect="refuted")
    return ["commands::test::get_exit_code"]


def status_enum(src):
    t = open(os.path.join(src, "guard", "src", "rules", "mod.rs")).read()
    m = re.search(r"enum Status \{(.*?)\}", t, re.S)
    if not m:
        raise Untranslatable("enum Status not found in source")
    vs = [v for v in re.sub(r"#\[[^\]]*\]", "", m.group(1)).replace("\n", " ").split(",")]
    vs = [v.strip() for v in vs if v.strip()]
    if sorted(vs) != ["FAIL", "PASS", "SKIP"]:
        raise Untranslatable(f"unexpected Status variants {vs}")
    return vs


def check_status_and(mir, src, ob):
    text = find_fn(mir, r"rules::<impl at guard/src/rules/mod\.rs:\d+:\d+: \d+:\d+>::and")
    header, locs, blocks = parse_fn(text)
    vs = status_enum(src)
    P, F_, S_ = vs.index("PASS"), vs.index("FAIL"), vs.index("SKIP")
    enums = {"Status": vs}

    def st(t):
        return ("enum", "rules::Status", t, {})

    def apply(sym, a, b):
        r, bad = summary_term_enum(paths(sym, header, locs, blocks, {"_1": st(a), "_2": st(b)}))
        return r, bad
    dom = lambda v: f"(and (<= 0 {v}) (<= {v} 2))"
    sym = Sym({}, enums, {})
    a, b, c = (sym.fresh("Int", x) for x in "abc")
    ab, bad1 = apply(sym, a, b)
    ba, bad2 = apply(sym, b, a)
    ab_c, bad3 = apply(sym, ab, c)
    bc, bad4 = apply(sym, b, c)
    a_bc, bad5 = apply(sym, a, bc)
    sa, bad6 = apply(sym, str(S_), a)
    as_, bad7 = apply(sym, a, str(S_))
    rule = f"(ite (or (= {a} {F_}) (= {b} {F_}) (= {c} {F_})) {F_} (ite (or (= {a} {P}) (= {b} {P}) (= {c} {P})) {P} {S_}))"
    start, bad8 = apply(sym, str(S_), a)
    s2, bad9 = apply(sym, start, b)
    s3, bad10 = apply(sym, s2, c)
    nobad = "(not (or " + " ".join([bad1, bad2, bad3, bad4, bad5, bad6, bad7, bad8, bad9, bad10]) + "))"
    ob.check("Status::and/algebra", sym.decls, [dom(a), dom(b), dom(c)],
             f"(not (and {nobad} (= {ab} {ba}) (= {ab_c} {a_bc}) (= {sa} {a}) (= {as_} {a}) (= {s3} {rule})))",
             "commutative, associative, SKIP neutral, fold from SKIP over 3 statuses = FAIL if any FAIL else PASS if any PASS else SKIP")
    ob.check("Status::and/witness", sym.decls, [dom(a), dom(b), dom(c)], f"(not (= {ab} {a}))",
             "vacuity witness: 'a.and(b) == a' must be refuted", expect="refuted")
    return ["rules::Status::and"]


def check_compare_tables(mir, ob):
    """compare_lt/le/gt/ge as functions of compare_values' result (uninterpreted):
    Ok(Less/Equal/Greater) -> the documented truth table; Err -> Err (same error)."""
    fns = []
    table = {"compare_lt": (True, False, False), "compare_le": (True, True, False),
             "compare_gt": (False, False, True), "compare_ge": (False, True, True)}
    for fname, (tl, te, tg) in table.items():
        text = find_fn(mir, r"(?:rules::)?path_value::" + fname)
        header, locs, blocks = parse_fn(text)

        def fresh_result(sym):
            tag = sym.fresh("Int", "cv_tag")
            o = sym.fresh("Int", "cv_ord")
            e = sym.fresh("Int", "cv_err")
            sym.assumptions = [f"(or (= {tag} 0) (= {tag} 1))", f"(and (<= (- 1) {o}) (<= {o} 1))"]
            sym.cv = (tag, o, e)
            return ("enum", "Result", tag, {"Ok": ("enum", "std::cmp::Ordering", o, {}), "Err": ("int", e)})
        sym = Sym({}, {}, {"compare_values": fresh_result})
        dummy = ("int", "0")
        pths = paths(sym, header, locs, blocks, {"_1": dummy, "_2": dummy})
        tag, o, e = sym.cv
        # build the result as (rtag, rbool, rerr)
        goal_parts = []
        for pc, outc in pths:
            if outc[0] != "return":
                goal_parts.append(f"(not {pc_term(pc)})")   # no panic / unreachable path is feasible
                continue
            v = outc[1]
            if v[0] != "enum" or v[1] != "Result":
                raise Untranslatable("unexpected return shape")
            if "Ok" in v[3]:
                want = f"(ite (= {o} (- 1)) {str(tl).lower()} (ite (= {o} 0) {str(te).lower()} {str(tg).lower()}))"
                goal_parts.append(f"(=> {pc_term(pc)} (and (= {tag} 0) (= {v[3]['Ok'][1]} {want})))")
            else:
                goal_parts.append(f"(=> {pc_term(pc)} (and (= {tag} 1) (= {v[3]['Err'][1]} {e})))")
        # and the paths are exhaustive
        goal_parts.append("(or " + " ".join(pc_term(pc) for pc, outc in pths if outc[0] == "return") + ")")
        ob.check(f"{fname}/table", sym.decls, sym.assumptions, "(not (and " + " ".join(goal_parts) + "))",
                 f"{fname}: Ok(Less,Equal,Greater) -> ({tl},{te},{tg}); Err(e) -> Err(e); no panic path")
        ob.check(f"{fname}/witness", sym.decls, sym.assumptions, f"(not (= {tag} 1))",
                 "vacuity witness: 'compare_values always fails' must be refuted", expect="refuted")
        fns.append("rules::path_value::" + fname)
    return fns



# ------------------------------------------------------------------------------------------------
# K21: arithmetic-overflow sites (havoc mode): can a checked `+ - *` assert fail for some argument values,
# assuming every callee returns (an arbitrary value)? A satisfiable site is only a CANDIDATE: it is reported
# as a violation only after a native replay through the real CLI reproduces the panic.
# ------------------------------------------------------------------------------------------------
def overflow_candidates(mir, fn_re, int_args, ob, label):
    """int_args: {local: type} - the integer arguments made symbolic (full range of their type = the
    documented domain; Location.line / .col are 0-based and may be 0)."""
    text = find_fn(mir, fn_re)
    header, locs, blocks = parse_fn(text)
    sym = Sym(consts_of(mir), {}, {})
    sym.havoc_mode = True
    args = {}
    for a, ty in int_args.items():
        args[a] = havoc(sym, ty)
    pths = paths(sym, header, locs, blocks, args)
    sites = {}
    for pc, fail, msg, bb in sym.asserts:
        if "overflow" not in msg:
            continue
        sites.setdefault((bb, msg), []).append(f"(and {pc_term(pc)} {fail})")
    cands = []
    for (bb, msg), conds in sorted(sites.items()):
        st = ob.check(f"{label}/{bb}/no-overflow", sym.decls, sym.side, "(or " + " ".join(conds) + ")",
                      f"{label} {bb}: `{msg}` cannot fail for any argument value (callees havoc'ed, loops cut at one iteration)")
        if st == "refuted":
            cands.append(ob.items[-1])
    return cands, len(pths), {a: args[a][1] for a in args}


EMIT_CODE_RULE = "rule t { Resources.*.Properties.x == 2 }\n"


def replay_emit_code(src, line_value):
    """native replay: a failing clause whose value sits on 0-based line `line_value` of the data file makes the
    console reporter call emit_code(line_value). Build the real CLI from the scratch copy and run it."""
    import tempfile
    env = dict(os.environ)
    env["CARGO_NET_OFFLINE"] = "true"
    env["CARGO_TARGET_DIR"] = os.path.join(os.path.dirname(src), "native-target")
    env.pop("RUSTUP_TOOLCHAIN", None)
    b = subprocess.run(["cargo", "build", "--offline", "-p", "cfn-guard", "--bin", "cfn-guard"], cwd=src, env=env,
                       stdout=subprocess.PIPE, stderr=subprocess.STDOUT, text=True, timeout=1800)
    exe = os.path.join(env["CARGO_TARGET_DIR"], "debug", "cfn-guard")
    if b.returncode != 0 or not os.path.exists(exe):
        return {"reproduced": False, "note": "native build failed", "tail": b.stdout[-400:]}
    d = tempfile.mkdtemp(prefix="cfnverif_replay_")
    try:
        doc = "\n" * int(line_value) + '{"Resources":{"a":{"Type":"AWS::S3::Bucket","Properties":{"x":1}}}}\n'
        open(os.path.join(d, "d.json"), "w").write(doc)
        open(os.path.join(d, "r.guard"), "w").write(EMIT_CODE_RULE)
        p = subprocess.run([exe, "validate", "-r", os.path.join(d, "r.guard"), "-d", os.path.join(d, "d.json")],
                           stdout=subprocess.PIPE, stderr=subprocess.STDOUT, text=True, timeout=120)
        pan = [l for l in p.stdout.splitlines() if "panicked at" in l or "overflow" in l][:3]
        return {"reproduced": p.returncode == 101 and any("overflow" in l for l in pan), "exit": p.returncode,
                "panic": pan, "input": {"data_file": doc, "rules_file": EMIT_CODE_RULE,
                                        "cmd": "cfn-guard validate -r r.guard -d d.json"}}
    finally:
        shutil.rmtree(d, ignore_errors=True)


def check_emit_code(mir, src, ob):
    cands, npaths, argterms = overflow_candidates(
        mir, r"cfn::single_line::<impl at guard/src/commands/reporters/validate/cfn\.rs:\d+:\d+: \d+:\d+>::emit_code",
        {"_3": "usize"}, ob, "cfn::emit_code")
    for c in cands:
        name = argterms["_3"].strip("|")
        m = re.search(r"define-fun \|?" + re.escape(name) + r"\|? \(\) Int\s+(\d+)", c.get("model") or "")
        line = int(m.group(1)) if m else 0
        c["counterexample"] = {"line (0-based, from the data file location of the failing value)": line}
        c["native_replay"] = replay_emit_code(src, line)
        c["reproduced"] = c["native_replay"]["reproduced"]
    return ["commands::reporters::validate::cfn::single_line::ErrWriter::emit_code"], npaths



# ------------------------------------------------------------------------------------------------
# K21b: directed search for `attempt to negate ... overflow` sites (list-index magnitude `-index`).
# For every such assert in the named functions a shortest CFG path from the entry is executed in havoc mode
# and the solver is asked for values that reach the site with the failing condition. No site = nothing to prove.
# ------------------------------------------------------------------------------------------------
NEGATE_FUNCS = [
    ("eval_context::retrieve_index", r"(?:(?:rules::)?eval_context::)?retrieve_index", "rule t { L[-2147483648] == 1 }\n", '{"L":[1,2]}\n'),
    ("eval_context::query_retrieval_with_converter", r"(?:(?:rules::)?eval_context::)?query_retrieval_with_converter",
     "let k = K[*]\nrule t { M.%k[-2147483648] exists }\n", '{"M":{"a":1,"b":2},"K":["a"]}\n'),
    ("PathAwareValue::retrieve_index", r"(?:rules::)?path_value::<impl at guard/src/rules/path_value\.rs:\d+:\d+: \d+:\d+>::retrieve_index", None, None),
]


def native_cli(src, rules, data, want_in_output):
    import tempfile
    env = dict(os.environ)
    env["CARGO_NET_OFFLINE"] = "true"
    env["CARGO_TARGET_DIR"] = os.path.join(os.path.dirname(src), "native-target")
    env.pop("RUSTUP_TOOLCHAIN", None)
    b = subprocess.run(["cargo", "build", "--offline", "-p", "cfn-guard", "--bin", "cfn-guard"], cwd=src, env=env,
                       stdout=subprocess.PIPE, stderr=subprocess.STDOUT, text=True, timeout=1800)
    exe = os.path.join(env["CARGO_TARGET_DIR"], "debug", "cfn-guard")
    if b.returncode != 0 or not os.path.exists(exe):
        return {"reproduced": False, "note": "native build failed", "tail": b.stdout[-400:]}
    d = tempfile.mkdtemp(prefix="cfnverif_replay_")
    try:
        open(os.path.join(d, "d.json"), "w").write(data)
        open(os.path.join(d, "r.guard"), "w").write(rules)
        p = subprocess.run([exe, "validate", "-r", os.path.join(d, "r.guard"), "-d", os.path.join(d, "d.json")],
                           stdout=subprocess.PIPE, stderr=subprocess.STDOUT, text=True, timeout=120)
        pan = [l for l in p.stdout.splitlines() if "panicked at" in l or want_in_output in l][:3]
        return {"reproduced": p.returncode == 101 and any(want_in_output in l for l in pan), "exit": p.returncode,
                "panic": pan, "input": {"data_file": data, "rules_file": rules, "cmd": "cfn-guard validate -r r.guard -d d.json"}}
    finally:
        shutil.rmtree(d, ignore_errors=True)


def check_negate_sites(mir, src, ob):
    fns = []
    for label, fre, rules, data in NEGATE_FUNCS:
        try:
            text = find_fn(mir, fre)
        except Untranslatable:
            continue            # function renamed/removed: nothing to examine here (Kani harness K15 covers the kernels)
        header, locs, blocks = parse_fn(text)
        fns.append(label)
        targets = [bb for bb, sts in blocks.items() if any("attempt to negate" in st for st in sts)]
        if not targets:
            ob.items.append({"obligation": f"{label}/negate-sites", "describe": "no `-x` with overflow check in this function",
                             "verdicts": {}, "status": "proved-no-site", "model": None})
            continue
        for tb in targets:
            found = None
            tried = 0
            for guide in shortest_paths_to(blocks, tb):
                tried += 1
                sym = Sym(consts_of(mir), {}, {})
                sym.havoc_mode = True
                args = {}
                for a, ty in locs.items():
                    if re.match(r"^_\d+$", a) and ty in INT_RANGES and a in header:
                        args[a] = havoc(sym, ty)
                paths(sym, header, locs, blocks, args, guide=guide)
                conds = [f"(and {pc_term(pc)} {fail})" for pc, fail, msg, bb in sym.asserts if bb == tb and "negate" in msg]
                if not conds:
                    continue
                st = ob.check(f"{label}/{tb}/negate-no-overflow", sym.decls, sym.side, "(or " + " ".join(conds) + ")",
                              f"{label} {tb}: `-index` cannot overflow on the CFG path {' '.join(guide[:6])}.. (directed, havoc mode)")
                if st == "refuted":
                    found = ob.items[-1]
                    break
                ob.items.pop()      # infeasible along this path: try the next one
            if found is None:
                ob.items.append({"obligation": f"{label}/{tb}/negate-no-overflow", "describe": f"site exists; {tried} shortest paths examined, none feasible",
                                 "verdicts": {}, "status": "inconclusive", "model": None})
                continue
            found["counterexample"] = {"index": -2147483648}
            if rules:
                found["native_replay"] = native_cli(src, rules, data, "attempt to negate with overflow")
                found["reproduced"] = found["native_replay"]["reproduced"]
            else:
                found["reproduced"] = False
    return fns


PROP_KERNELS = {
    "C06": ["exit"], "C16": ["exit"], "C09": ["status"], "C02": ["status"], "C04": ["status"], "C13": ["cmp"],
    "C08": ["emit_code", "negate"],
}


def run_for_property(prop, src, tier):
    import miragg
    kernels = PROP_KERNELS.get(prop, [])
    if not kernels and not miragg.has_sites(prop):
        return None
    t0 = time.time()
    ob = Obligations()
    fns = []
    try:
        mir = dump_mir(src)
        for k in kernels:
            if k == "exit":
                fns += check_get_exit_code(mir, ob)
            elif k == "status":
                fns += check_status_and(mir, src, ob)
            elif k == "cmp":
                fns += check_compare_tables(mir, ob)
            elif k == "negate":
                fns += check_negate_sites(mir, src, ob)
            elif k == "emit_code":
                f, _n = check_emit_code(mir, src, ob)
                fns += f
        if miragg.has_sites(prop):
            agg = miragg.run(prop, mir, src, ob, tier)
            fns += agg.fns
    except Untranslatable as e:
        return {"status": "inconclusive", "reason": "not translatable: " + str(e), "functions": fns,
                "queries": len(ob.items) * len(SOLVERS), "obligations_discharged": 0, "obligations": ob.items,
                "wall_s": round(time.time() - t0, 1)}
    refuted = [o for o in ob.items if o["status"] == "refuted"]
    inconc = [o for o in ob.items if o["status"] == "inconclusive"]
    status = "violation" if refuted else ("inconclusive" if inconc else "ok")
    return {"status": status, "functions": fns, "queries": len(ob.items) * len(SOLVERS),
            "obligations_discharged": sum(1 for o in ob.items if o["status"] in ("proved", "proved-no-site")),
            "vacuity_witnesses_ok": sum(1 for o in ob.items if o["status"] == "witness-ok"),
            "obligations": ob.items, "failures": refuted, "solver_seconds": round(ob.time, 2),
            "bounds": "per obligation: `paths` enumerated, `unroll` = loop iterations kept (each basic block entered at most unroll+1 "
                      "times per path), `cut_by_unroll_bound` = paths abandoned at the bound (longer collections: outside the claim)",
            "solvers": ["z3 4.8.12 (/usr/bin/z3)", "cvc5 1.0"], "encoding": "Int/Bool terms, one term per CFG path (no arithmetic in these bodies => no wrap-around to model)",
            "reason": "; ".join(o["obligation"] for o in inconc) if inconc else None,
            "wall_s": round(time.time() - t0, 1)}


def replay(d):
    print("MIR->SMT counterexample as stored (model of the negated obligation, native replay at the time):")
    for f in d.get("failures", []):
        print(" ", f["obligation"], "-", f["describe"])
        print("  ", (f.get("model") or "").replace("\n", " ")[:300])
        rp = f.get("replay") or f.get("native_replay")
        if rp:
            import json as _j
            print("   native replay:", _j.dumps(rp)[:500])
    return 1


if __name__ == "__main__":
    import sys, json
    src = sys.argv[2] if len(sys.argv) > 2 else "/repo"
    print(json.dumps(run_for_property(sys.argv[1], src, "quick"), indent=1))
