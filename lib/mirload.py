"""C11: how the YAML/JSON loader types a scalar (libyaml/loader.rs handle_scalar_event, handle_type_ref), decided on
MIR with the std parsers modelled as fallible calls (engine: mirexec.Exec; z3 + cvc5)."""
import re
import mirsmt, mirexec
from mirsmt import Untranslatable, pc_term
from miragg import calls
from mirblocks import enum_variants, struct_fields, disc, field, payload, m_result_opq
from mirflow import same

LOADER = r"(?:rules::libyaml::)?loader::<impl at guard/src/rules/libyaml/loader\.rs:\d+:\d+: \d+:\d+>::"


def mk_models(ex_holder, SS):
    lits = {}

    def m_streq(ex, argv):
        lit = [x for x in argv if x[0] == "str"]
        oth = [x for x in argv if x[0] != "str"]
        if len(lit) == 1 and len(oth) == 1 and oth[0][0] == "opaque":
            k = (oth[0][1], lit[0][1])
            if k not in lits:
                lits[k] = ex.fresh("Bool", "streq")
            return ("bool", lits[k])
        return ex.havoc("bool")

    def m_style_ne(ex, argv):
        var = [x for x in argv if x[0] == "variant"]
        oth = [x for x in argv if x[0] != "variant"]
        if len(var) == 1 and len(oth) == 1 and var[0][2] in SS:
            return ("bool", f"(not (= {disc(ex, oth[0])} {SS.index(var[0][2])}))")
        return ex.havoc("bool")

    def m_parse(ex, argv):
        c = ex.cur_callee or ""
        if "parse::<i64>" in c:
            return ex.fresh_result(ex.fresh_int("i64", "pi"), "pari64")
        if "parse::<bool>" in c:
            return ex.fresh_result(("bool", ex.fresh("Bool", "pb")), "parbool")
        return ex.fresh_result(ex.opq(), "parf64")
    return {"eq": m_streq, "ne": m_style_ne, "parse": m_parse, "to_string": mirexec.m_identity, "as_str": mirexec.m_identity,
            "as_ref": mirexec.m_identity, "from_utf8": m_result_opq, "to_lowercase": lambda ex, av: ex.opq(),
            "starts_with": lambda ex, av: ("bool", ex.fresh("Bool", "sw")), "get_handle": lambda ex, av: ex.opq(),
            "get_suffix": lambda ex, av: ex.opq(), "handle_single_value_func_ref": mirexec.m_option,
            "handle_type_ref": lambda ex, av: ex.opq(), "map_or": lambda ex, av: ex.opq()}, lits


def scalar_typing(a):
    SS = enum_variants(a.src, "rules/libyaml/event.rs", "ScalarStyle")
    SC = struct_fields(a.src, "rules/libyaml/event.rs", "Scalar")
    models, lits = mk_models(None, SS)
    ex = a.exec(LOADER + "handle_scalar_event", models, log=("push",), unroll=1, max_paths=20000)
    a.fns.append("rules::libyaml::loader::Loader::handle_scalar_event")
    ev, loc = ex.arg_env["_2"], ex.arg_env["_3"]
    tag = field(ex, ev, SC.index("tag"), "Option")
    style = field(ex, ev, SC.index("style"), "ScalarStyle")
    plain = f"(= {disc(ex, style)} {SS.index('Plain')})"
    no_tag = f"(= {disc(ex, tag)} 0)"
    bad = []
    for p in ex.paths:
        pu = [e for e in calls(p, "push") if len(e[2]) == 2]
        if p.outcome != "return" or len(pu) != 1:
            bad.append(pc_term(p.pc))
            continue
        v = pu[0][2][1]
        pars = {("i64" if "i64" in e[5] else "bool" if "bool" in e[5] else "f64"): e for e in calls(p, "parse")}
        utf = calls(p, "from_utf8")
        val = None
        for e in calls(p, "to_string"):
            val = e[3]
        if v[0] == "opaque":
            # tagged scalars: result of the tag handlers (checked separately); must not happen for an untagged scalar
            bad.append(f"(and {pc_term(p.pc)} {no_tag})")
            continue
        if v[0] != "variant" or v[1] != "MarkedValue":
            bad.append(pc_term(p.pc))
            continue
        kind, pl = v[2], v[3]
        loc_ok = bool(pl) and same(pl[-1], loc)
        i_ok = f"(= {pars['i64'][3][2]} 0)" if "i64" in pars else None
        f_ok = f"(= {pars['f64'][3][2]} 0)" if "f64" in pars else None
        b_ok = f"(= {pars['bool'][3][2]} 0)" if "bool" in pars else None
        nullish = "(or false " + " ".join(e[3][1] for e in calls(p, "eq") if e[3][0] == "bool" and any(x[0] == "str" and x[1] in ("~", "null") for x in e[2])) + ")"
        struct_ok = loc_ok
        if kind == "String":
            want = f"(or (not {no_tag}) (not {plain})" + (f" (and (not {i_ok}) (not {f_ok}) (not {b_ok}) (not {nullish}))" if (i_ok and f_ok and b_ok) else "") + ")"
            struct_ok = struct_ok and len(pl) == 2 and pl[0][0] in ("opaque", "str")
        elif kind == "Int":
            want = f"(and {no_tag} {plain} {i_ok or 'false'})"
            struct_ok = struct_ok and "i64" in pars and same(pl[0], pars["i64"][3][3]["Ok"])
        elif kind == "Float":
            want = f"(and {no_tag} {plain} (not {i_ok or 'true'}) {f_ok or 'false'})"
            struct_ok = struct_ok and "f64" in pars and same(pl[0], pars["f64"][3][3]["Ok"])
        elif kind == "Bool":
            want = f"(and {no_tag} {plain} (not {i_ok or 'true'}) (not {f_ok or 'true'}) {b_ok or 'false'})"
            struct_ok = struct_ok and "bool" in pars and same(pl[0], pars["bool"][3][3]["Ok"])
        elif kind == "Null":
            want = f"(and {no_tag} {plain} (not {i_ok or 'true'}) (not {f_ok or 'true'}) (not {b_ok or 'true'}) {nullish})"
        else:
            want = "false"
        bad.append(f"(and {pc_term(p.pc)} (not {want if struct_ok else 'false'}))")
    c = a.discharge("loader/handle_scalar_event/typing-cascade", ex, bad,
                    "YAML/JSON loader, one scalar (std parsers modelled as fallible calls): an untagged scalar that is not plain (quoted, "
                    "block) is always a String; an untagged plain scalar is Int iff it parses as i64, else Float iff it parses as f64, "
                    "else Bool iff it parses as bool, else Null iff it is `~` / `null` (any case), else String; the typed value is the "
                    "parser's result and carries the scalar's own location; exactly one value is pushed")
    if c:
        c["replay"] = replay_scalars(a)
        if not c["replay"].get("reproduced"):
            # the obligation also covers the location attached to the value: second recipe
            r2 = replay_yaml_positions(a)
            if r2.get("reproduced"):
                c["replay"] = r2
        c["reproduced"] = c["replay"].get("reproduced", False)
        a.candidates.append(c)


def type_ref(a):
    SS = enum_variants(a.src, "rules/libyaml/event.rs", "ScalarStyle")
    models, lits = mk_models(None, SS)
    ex = a.exec(r"(?:(?:rules::libyaml::)?loader::)?handle_type_ref", models, unroll=1, max_paths=20000)
    a.fns.append("rules::libyaml::loader::handle_type_ref")
    val, loc, tref = ex.arg_env["_1"], ex.arg_env["_2"], ex.arg_env["_3"]
    bad = []
    for p in ex.paths:
        v = p.ret
        if p.outcome != "return" or not v or v[0] != "variant" or v[1] != "MarkedValue":
            bad.append(pc_term(p.pc))
            continue
        eqs = {x[1]: e[3][1] for e in calls(p, "eq") if e[3][0] == "bool" for x in e[2] if x[0] == "str"}
        pars = calls(p, "parse")
        # which explicit tag this path is about = the one literal whose comparison is true on the path
        is_ = lambda suffix: eqs.get("tag:yaml.org,2002:" + suffix, "false")
        kind, pl = v[2], v[3]
        loc_ok = bool(pl) and same(pl[-1], loc)
        par_ok = f"(= {pars[0][3][2]} 0)" if pars else "false"
        par_val = pars[0][3][3]["Ok"] if pars else None
        par_ty = ("i64" if "i64" in pars[0][5] else "bool" if "bool" in pars[0][5] else "f64") if pars else None
        if kind == "Bool":
            want = f"(and {is_('bool')} {par_ok})" if (par_ty == "bool" and same(pl[0], par_val)) else "false"
        elif kind == "Int":
            want = f"(and {is_('int')} {par_ok})" if (par_ty == "i64" and same(pl[0], par_val)) else "false"
        elif kind == "Float":
            want = f"(and {is_('float')} {par_ok})" if (par_ty == "f64" and same(pl[0], par_val)) else "false"
        elif kind == "Null":
            want = is_("null")
        elif kind == "BadValue":
            want = f"(and (or {is_('int')} {is_('float')}) (not {par_ok}))" if same(pl[0], val) else "false"
        elif kind == "String":
            want = (f"(or (and {is_('bool')} (not {par_ok})) (not (or {is_('bool')} {is_('int')} {is_('float')} {is_('null')})))"
                    if same(pl[0], val) else "false")
        else:
            want = "false"
        bad.append(f"(and {pc_term(p.pc)} (not {want if loc_ok else 'false'}))")
    a.discharge("loader/handle_type_ref/explicit-tags", ex, bad,
                "explicit core tags: !!bool -> Bool if it parses, else the text stays a String; !!int / !!float -> the parsed number, or a "
                "BadValue (rejected later) if it does not parse; !!null -> Null; any other tag -> String; the value keeps the scalar's "
                "location")


def short_form_tables(a):
    """CloudFormation short-form tags: `!X v` must load as `{<long form of X>: v}`. The long form is `Fn::X` for every
    intrinsic function except Ref and Condition, which keep their name (CloudFormation's own rule). The table the loader
    uses is the lazy_static initialiser; its entries are read off the MIR (constants: the solver's part is trivial here)."""
    init = None
    for m in re.finditer(r"^fn ((?:rules::)?<impl at [^>]*lazy_static[^>]*>::deref::__static_ref_initialize)\(\) -> HashMap<&str, &str> \{$", a.mir, re.M):
        init = m.group(1)
    if init is None:
        a.ob.items.append({"obligation": "loader/short-form-table", "describe": "SHORT_FORM_TO_LONG_MAPPING initialiser not found",
                           "verdicts": {}, "status": "inconclusive", "model": None})
        return
    ex = a.exec(re.escape(init), {"insert": mirexec.m_option, "new": lambda ex, av: ex.opq()}, log=("insert",), unroll=1, max_paths=50,
                first_arg_re=r"\) -> HashMap<&str, &str>" if False else "")
    a.fns.append("rules::SHORT_FORM_TO_LONG_MAPPING (lazy_static initialiser)")
    bad, n = [], 0
    for p in ex.paths:
        ins = calls(p, "insert")
        wrong = []
        keys = []
        for e in ins:
            if len(e[2]) == 3 and e[2][1][0] == "str" and e[2][2][0] == "str":
                n += 1
                k, v = e[2][1][1], e[2][2][1]
                keys.append(k)
                want = k if k in ("Ref", "Condition") else "Fn::" + k
                if v != want:
                    wrong.append((k, v))
            else:
                wrong.append(("?", "?"))
        need = {"Ref", "GetAtt", "Base64", "Sub", "GetAZs", "ImportValue", "Condition", "Select", "Split", "Join", "FindInMap", "If", "And",
                "Or", "Not", "Equals"}
        missing = sorted(need - set(keys))
        bad.append(pc_term(p.pc) if (wrong or missing or len(set(keys)) != len(keys)) else "false")
    c0 = a.discharge("loader/short-form-table", ex, bad,
                f"short-form tag table ({n} entries): every entry maps X to `Fn::X`, except Ref and Condition which map to themselves; "
                     "the CloudFormation intrinsic functions are all present; no key is entered twice", witness=False)
    if c0:
        c0["replay"] = replay_short_forms(a)
        c0["reproduced"] = c0["replay"].get("reproduced", False)
        a.candidates.append(c0)
    # the two handlers that build `{long form: value}` for scalar / sequence payloads
    for fname, payload_variant in (("handle_single_value_func_ref", "String"), ("handle_sequence_value_func_ref", "Null")):
        ex = a.exec(r"(?:(?:rules::libyaml::)?loader::)?" + fname,
                    {"contains": lambda ex, av: ("bool", ex.fresh("Bool", "known")), "is_short_form": lambda ex, av: ("bool", ex.fresh("Bool", "known")),
                     "short_form_to_long": lambda ex, av: ("tuple", [("str", "long-of"), av[0]]),
                     "insert": mirexec.m_option, "new": lambda ex, av: ex.opq(), "to_string": mirexec.m_identity, "deref": mirexec.m_identity},
                    log=("insert",), unroll=1, max_paths=200)
        a.fns.append("rules::libyaml::loader::" + fname)
        args = ex.arg_env
        tag = args["_3"] if fname.startswith("handle_single") else args["_2"]
        loc = args["_2"] if fname.startswith("handle_single") else args["_1"]
        bad = []
        for p in ex.paths:
            r = p.ret
            # "known tag": one table lookup of THIS tag, or the helper that looks it up in both tables (decided separately:
            # loader/short-form/loaders-agree)
            cons = calls(p, "contains") + calls(p, "is_short_form")
            ins = calls(p, "insert")
            if p.outcome != "return" or r is None or r[0] != "enum" or len(cons) != 1 or not same(cons[0][2][-1], tag):
                bad.append(pc_term(p.pc))
                continue
            known = cons[0][3][1]
            if r[2] == "0":
                good = f"(not {known})" if not ins else "false"
            else:
                v = r[3].get("Some")
                ok = (len(ins) == 1 and v is not None and v[0] == "variant" and v[2] == "Map" and same(v[3][0], ins[0][2][0]) and same(v[3][1], loc))
                if ok:
                    key, val = ins[0][2][1], ins[0][2][2]
                    ok = (key[0] == "tuple" and key[1][0] == ("tuple", [("str", "long-of"), tag]) and same(key[1][1], loc)
                          and val[0] == "variant" and val[2] == payload_variant and same(val[3][-1], loc))
                    if ok and payload_variant == "String":
                        ok = same(val[3][0], args["_1"])
                good = known if ok else "false"
            bad.append(f"(and {pc_term(p.pc)} (not {good}))")
        c1 = a.discharge(f"loader/{fname}", ex, bad,
                    f"{fname}: a known short-form tag yields a one-entry map whose key is the LONG form of that tag (at the scalar's "
                    "location) and whose value is " + ("the scalar text as a String" if payload_variant == "String" else "a placeholder that "
                    "the following sequence replaces") + "; an unknown tag yields nothing (the scalar stays a plain value)", witness=True)
        if c1:
            c1["replay"] = replay_short_forms(a)
            c1["reproduced"] = c1["replay"].get("reproduced", False)
            a.candidates.append(c1)


def replay_short_forms(a):
    exe = a.cli()
    if not exe:
        return {"reproduced": False, "note": "native build failed"}
    data = ('A: !Ref x\nB: !GetAtt a.b\nC: !Join [ ",", [ "p", "q" ] ]\nD: !Sub "s"\nE: !Select [ 0, [ "u" ] ]\nF: !Base64 v\n'
            'G: !If [c, 1, 2]\nH: !Condition k\nI: !ImportValue iv\nJ: !GetAZs r\nK: !Split [ "-", "a-b" ]\nL: !FindInMap [ m, k1, k2 ]\n'
            'M: !Equals [ 1, 1 ]\nN: !Not [ true ]\nO: !And [ true, false ]\nP: !Or [ true, false ]\nU: !Unknown z\n')
    cases = [('A.Ref == "x"', "PASS"), ('B."Fn::GetAtt" == "a.b"', "PASS"), ('C."Fn::Join"[0] == ","', "PASS"), ('C."Fn::Join"[1][1] == "q"', "PASS"),
             ('D."Fn::Sub" == "s"', "PASS"), ('E."Fn::Select"[0] == 0', "PASS"), ('F."Fn::Base64" == "v"', "PASS"), ('G."Fn::If"[2] == 2', "PASS"),
             ('H.Condition == "k"', "PASS"), ('I."Fn::ImportValue" == "iv"', "PASS"), ('J."Fn::GetAZs" == "r"', "PASS"),
             ('K."Fn::Split"[1] == "a-b"', "PASS"), ('L."Fn::FindInMap"[2] == "k2"', "PASS"), ('M."Fn::Equals"[0] == 1', "PASS"),
             ('N."Fn::Not"[0] == true', "PASS"), ('O."Fn::And"[1] == false', "PASS"), ('P."Fn::Or"[0] == true', "PASS"),
             ('U == "z"', "PASS"), ('A is_struct', "PASS"), ('U is_string', "PASS")]
    import os, tempfile, shutil, subprocess, json
    out = []
    for clause, exp in cases:
        d = tempfile.mkdtemp(prefix="cfnverif_replay_")
        try:
            open(os.path.join(d, "r.guard"), "w").write(f"rule t {{\n  {clause}\n}}\n")
            open(os.path.join(d, "d.yaml"), "w").write(data)
            p = subprocess.run([exe, "validate", "-r", os.path.join(d, "r.guard"), "-d", os.path.join(d, "d.yaml"), "--structured", "-o", "json",
                                "--show-summary", "none"], stdout=subprocess.PIPE, stderr=subprocess.PIPE, text=True, timeout=120)
            try:
                rep = json.loads(p.stdout)
                r = rep[0]
                got = "PASS" if "t" in r.get("compliant", []) else ("SKIP" if "t" in r.get("not_applicable", []) else "FAIL")
            except Exception:
                got = None
        finally:
            shutil.rmtree(d, ignore_errors=True)
        out.append({"clause": clause, "expected": exp, "observed": got})
    badc = [o for o in out if o["observed"] is not None and o["observed"] != o["expected"]]
    return {"reproduced": bool(badc), "mismatches": badc[:5], "cases": out, "data": data}


def replay_scalars(a):
    exe = a.cli()
    if not exe:
        return {"reproduced": False, "note": "native build failed"}
    data = ('i: 12\nn: -3\nf: 1.5\ne: 1e3\ne2: 25e-1\nb: true\nz: null\nt: ~\ns: abc\nqi: "12"\nqb: \'true\'\nqz: "null"\nqf: "1.5"\nblk: |\n  12\nblk2: |-\n  12\nblk3: >-\n  true\nblk4: |-\n  null\n'
            'j: {"i": 7, "s": "7", "b": false, "z": null}\n')
    cases = [("i is_int", "PASS"), ("n is_int", "PASS"), ("f is_float", "PASS"), ("b is_bool", "PASS"), ("z is_null", "PASS"),
             ("t is_null", "PASS"), ("s is_string", "PASS"), ("qi is_string", "PASS"), ("qb is_string", "PASS"), ("qz is_string", "PASS"),
             ("qf is_string", "PASS"), ("blk is_string", "PASS"), ("blk2 is_string", "PASS"), ("blk2 == \"12\"", "PASS"), ("blk3 is_string", "PASS"), ("blk4 is_string", "PASS"), ("i == 12", "PASS"), ("qi == \"12\"", "PASS"), ("qi == 12", "FAIL"),
             ("j.i is_int", "PASS"), ("j.s is_string", "PASS"), ("j.b is_bool", "PASS"), ("j.z is_null", "PASS"), ("f is_int", "FAIL"),
             ("i is_float", "FAIL"), ("b is_string", "FAIL"), ("e is_float", "PASS"), ("e == 1000.0", "PASS"), ("e2 == 2.5", "PASS"),
             ("j.i == 7", "PASS")]
    return a.replay_cases(exe, data, cases)


def serde_number_typing(a):
    """the loaders of `test` / the library API (serde_yaml / serde_json -> Value): a number becomes Int only with its exact
    value; anything that does not fit i64 must not turn into some other integer"""
    I64MAX, U64MAX = 9223372036854775807, 18446744073709551615
    cands = []
    for label, rx in (("serde_yaml", r"values::<impl at guard/src/rules/values\.rs:\d+:\d+: \d+:\d+>::try_from"),
                      ("serde_json", r"values::<impl at guard/src/rules/values\.rs:\d+:\d+: \d+:\d+>::try_from")):
        first = r"_1: &" + label + r"::Value"
        st = {}

        def pure(ex, av, tag, mk):
            k = (tag, av[0][1] if av and av[0][0] == "opaque" else id(av))
            if k not in ex.proj:
                ex.proj[k] = mk()
            return ex.proj[k]

        def m_is_i64(ex, av):
            return pure(ex, av, "is_i64", lambda: ex.havoc("bool"))

        def m_is_u64(ex, av):
            return pure(ex, av, "is_u64", lambda: ex.havoc("bool"))

        def m_as_i64(ex, av):
            def mk():
                i = ex.fresh("Int", "numi")
                ex.side.append(f"(and (<= (- {I64MAX + 1}) {i}) (<= {i} {I64MAX}))")
                t = ex.fresh("Int", "hasi")
                b = m_is_i64(ex, av)[1]
                ex.side.append(f"(= {t} (ite {b} 1 0))")
                return ("enum", "Option", t, {"Some": ("int", i)})
            return pure(ex, av, "as_i64", mk)

        def m_as_u64(ex, av):
            def mk():
                u = ex.fresh("Int", "numu")
                t = ex.fresh("Int", "hasu")
                bi, bu = m_is_i64(ex, av)[1], m_is_u64(ex, av)[1]
                i = m_as_i64(ex, av)[3]["Some"][1]
                # serde: is_u64 <=> the number is a non-negative integer that fits u64; is_i64 <=> an integer that fits i64
                ex.side.append(f"(and (<= 0 {u}) (<= {u} {U64MAX}) (= {t} (ite {bu} 1 0)) (=> (and {bi} {bu}) (= {u} {i})) "
                               f"(=> (and {bu} (not {bi})) (> {u} {I64MAX})) (=> (and {bi} (not {bu})) (< {i} 0)))")
                return ("enum", "Option", t, {"Some": ("int", u)})
            return pure(ex, av, "as_u64", mk)
        def m_is_f64(ex, av):
            # serde: a number is exactly one of i64-representable, u64-only, or float
            def mk():
                b = ex.havoc("bool")
                ex.side.append(f"(= {b[1]} (and (not {m_is_i64(ex, av)[1]}) (not {m_is_u64(ex, av)[1]})))")
                return b
            return pure(ex, av, "is_f64", mk)

        def m_unwrap_or_else(ex, av):
            if av and av[0][0] == "enum" and "Some" in av[0][3] and av[0][3]["Some"][0] == "int":
                r = ex.fresh("Int", "uoe")
                ex.side.append(f"(=> (= {av[0][2]} 1) (= {r} {av[0][3]['Some'][1]}))")
                ex.side.append(f"(and (<= (- {I64MAX + 1}) {r}) (<= {r} {I64MAX}))")
                return ("int", r)
            return ex.opq()

        def m_unwrap(ex, av):
            # Option::unwrap: the payload; unwrapping None is a panic and is an obligation of its own (below)
            if av and av[0][0] == "enum" and "Some" in av[0][3]:
                return av[0][3]["Some"]
            return ex.opq()
        try:
            ex = a.exec(rx, {"unwrap": m_unwrap, "is_f64": m_is_f64, "unwrap_or_else": m_unwrap_or_else, "unwrap_or": m_unwrap_or_else,
                             "unwrap_or_default": m_unwrap_or_else, "is_i64": m_is_i64, "is_u64": m_is_u64, "as_i64": m_as_i64, "as_u64": m_as_u64, "as_f64": lambda ex, av: ("enum", "Option", "1", {"Some": ex.opq()}),      # contract: every serde number has an f64 reading
                             "to_owned": mirexec.m_identity, "to_string": mirexec.m_identity, "clone": mirexec.m_identity,
                             "next": mirexec.m_iter_next, "into_iter": mirexec.m_new_iter, "iter": mirexec.m_new_iter,
                             "try_from": m_result_opq, "try_fold": m_result_opq, "handle_tagged_value": m_result_opq,
                             "count": lambda ex, av: ex.havoc("usize"), "strip_prefix": mirexec.m_option},
                        log=("unwrap",), unroll=1, max_paths=20000, first_arg_re=first)
        except Untranslatable as e:
            a.ob.items.append({"obligation": f"loader/{label}/number-typing", "describe": f"not translatable: {e}", "verdicts": {},
                               "status": "inconclusive", "model": None})
            continue
        a.fns.append(f"rules::values::<impl TryFrom<&{label}::Value> for Value>::try_from (number arm)")
        bad, nnum = [], 0
        for p in ex.paths:
            r = p.ret
            nums = [e for e in p.events if e[0] == "call" and e[1] in ("is_i64", "is_u64", "is_f64", "as_i64", "as_u64", "as_f64")]
            if not nums or p.outcome != "return" or not r or r[0] != "enum" or r[1] != "Result":
                if nums and p.outcome != "return":
                    bad.append(pc_term(p.pc))        # a number never panics the loader
                continue
            nnum += 1
            for e in p.events:
                if e[0] == "call" and e[1] == "unwrap" and e[2] and e[2][0][0] == "enum" and "Some" in e[2][0][3]:
                    bad.append(f"(and {pc_term(p.pc)} (= {e[2][0][2]} 0))")          # unwrap() on None would panic
            num = nums[0][2]
            bi, bu = m_is_i64(ex, num)[1], m_is_u64(ex, num)[1]
            i = m_as_i64(ex, num)[3]["Some"][1]
            okv = r[3].get("Ok")
            if okv is None or okv[0] != "variant":
                bad.append(f"(and {pc_term(p.pc)} (= {r[2]} 0))")
                continue
            if okv[2] == "Int":
                v = okv[3][0]
                exact = f"(and {bi} (= {v[1]} {i}))" if v[0] == "int" else "false"
                bad.append(f"(and {pc_term(p.pc)} (not {exact}))")
            elif okv[2] == "Float":
                bad.append(f"(and {pc_term(p.pc)} {bi})")              # an i64 integer stays an Int
            else:
                bad.append(pc_term(p.pc))
        c = a.discharge(f"loader/{label}/number-typing", ex, bad,
                        f"{label} loader of `test` / run_checks, number arm ({nnum} paths), serde's is_i64 / is_u64 / as_* modelled by their "
                        "contracts over mathematical integers: the result is Int(v) only if the number is an integer that fits i64 and v is "
                        "exactly that integer; an i64 integer never becomes a Float; no panic")
        if c:
            cands.append(c)
    if cands:
        rep = replay_big_numbers(a)
        for c in cands:
            c["replay"] = rep
            c["reproduced"] = rep.get("reproduced", False)
            a.candidates.append(c)


def replay_big_numbers(a):
    """`test` (serde_yaml loader) against `validate` (own loader) on boundary integers: same rule statuses"""
    import json, os, shutil, subprocess, tempfile
    exe = a.cli()
    if not exe:
        return {"reproduced": False, "note": "native build failed"}
    rules = "rule neg {\n  x < 0\n}\nrule pos {\n  x > 0\n}\nrule isint {\n  x is_int\n}\n"
    d = tempfile.mkdtemp(prefix="cfnverif_replay_")
    env = dict(os.environ)
    env["RUST_BACKTRACE"] = "0"
    out, tried = [], []
    try:
        open(os.path.join(d, "r.guard"), "w").write(rules)
        for lit in ("9223372036854775807", "9223372036854775808", "18446744073709551615", "-9223372036854775808", "0", "-1", "4294967296"):
            open(os.path.join(d, "d.json"), "w").write('{"x":\n ' + lit + '}\n')
            pr = subprocess.run([exe, "validate", "-r", "r.guard", "-d", "d.json", "--structured", "-o", "json", "--show-summary", "none"],
                                cwd=d, capture_output=True, text=True, env=env, timeout=60)
            try:
                rep = json.loads(pr.stdout)[0]
            except Exception:
                tried.append({"x": lit, "problem": "validate gave no report", "exit": pr.returncode})
                continue
            val = {n: ("PASS" if n in rep.get("compliant", []) else "SKIP" if n in rep.get("not_applicable", []) else "FAIL") for n in ("neg", "pos", "isint")}
            open(os.path.join(d, "t.yaml"), "w").write("- name: c\n  input:\n    x: " + lit + "\n  expectations:\n    rules:\n" +
                                                       "".join(f"      {n}: {s}\n" for n, s in val.items()))
            pt = subprocess.run([exe, "test", "-r", "r.guard", "-t", "t.yaml", "-o", "json"], cwd=d, capture_output=True, text=True, env=env, timeout=60)
            try:
                tc = json.loads(pt.stdout)["test_cases"][0]
                failed = tc.get("failed_rules", [])
            except Exception:
                tried.append({"x": lit, "problem": "test gave no report", "exit": pt.returncode})
                continue
            ok = pt.returncode == 0 and not failed
            tried.append({"x": lit, "validate": val, "ok": ok})
            if not ok:
                out.append({"x": lit, "rules_file": rules, "validate_statuses": val, "test_disagrees_on": failed, "test_exit": pt.returncode})
        return {"reproduced": bool(out), "mismatches": out[:3], "tried": tried,
                "note": "; ".join(t["problem"] for t in tried if "problem" in t) or None}
    finally:
        shutil.rmtree(d, ignore_errors=True)


def short_form_loader_agreement(a):
    """the loader of `validate` (libyaml events: scalar / sequence payloads are handled by two functions) and the serde loader
    of `test` / run_checks (one function) must take the SAME decision on whether `!Tag payload` becomes {long form: payload}"""
    def m_deref(ex, av):
        c = ex.cur_callee or ""
        m = re.search(r"(SINGLE_VALUE_FUNC_REF|SEQUENCE_VALUE_FUNC_REF|SHORT_FORM_TO_LONG_MAPPING)", c)
        return ("str", "$" + m.group(1)) if m else (av[0] if av else ex.opq())

    def m_contains(ex, av):
        if av and av[0] == ("str", "$SINGLE_VALUE_FUNC_REF"):
            return ("bool", "|in_single|")
        if av and av[0] == ("str", "$SEQUENCE_VALUE_FUNC_REF"):
            return ("bool", "|in_seq|")
        return ex.havoc("bool")
    def m_is_short_form(ex, av):
        # the helper's own wrap condition is read from its MIR once (paths that return true)
        if "cond" not in helper:
            hx = a.exec(r"(?:(?:rules::libyaml::)?loader::)?is_short_form", {"deref": m_deref, "contains": m_contains}, unroll=1, max_paths=50)
            alts = []
            for hp in hx.paths:
                atoms = [c for c in hp.pc if "|in_single|" in c or "|in_seq|" in c]
                if hp.ret == ("bool", "true"):
                    alts.append("(and true " + " ".join(atoms) + ")")
                elif hp.ret is not None and hp.ret[0] == "bool" and hp.ret[1] not in ("true", "false"):
                    alts.append("(and " + hp.ret[1] + " " + " ".join(atoms) + ")")
            helper["cond"] = "(or false " + " ".join(alts) + ")"
        return ("bool", helper["cond"])
    helper = {}
    models = {"deref": m_deref, "contains": m_contains, "is_short_form": m_is_short_form, "short_form_to_long": lambda ex, av: ex.opq(), "insert": mirexec.m_option,
              "new": lambda ex, av: ex.opq(), "to_string": mirexec.m_identity, "try_from": m_result_opq, "clone": mirexec.m_identity}
    W = {}
    for label, rx, first in (("validate loader, scalar payload", r"(?:(?:rules::libyaml::)?loader::)?handle_single_value_func_ref", ""),
                             ("validate loader, sequence payload", r"(?:(?:rules::libyaml::)?loader::)?handle_sequence_value_func_ref", ""),
                             ("serde loader (test / run_checks)", r"(?:(?:rules::)?values::)?handle_tagged_value", "")):
        try:
            ex = a.exec(rx, models, log=("insert",), unroll=1, max_paths=500)
        except Untranslatable as e:
            a.ob.items.append({"obligation": "loader/short-form/loaders-agree", "describe": f"not translatable: {e}", "verdicts": {},
                               "status": "inconclusive", "model": None})
            return
        a.fns.append(rx.split("?")[-1])
        alts = []
        # the serde loader may also look at the KIND of the payload (serde_yaml::Value discriminant): kept as the symbol pk
        val = ex.arg_env.get("_1")
        pkd = ex.proj.get(("disc", val[1])) if (label.startswith("serde") and val is not None and val[0] == "opaque") else None
        for p in ex.paths:
            if not calls(p, "insert"):
                continue
            atoms = [c for c in p.pc if "|in_single|" in c or "|in_seq|" in c or (pkd is not None and pkd in c)]
            alts.append("(and true " + " ".join(atoms) + ")")
        W[label] = "(or false " + " ".join(alts) + ")"
        if pkd is not None:
            W[label] = W[label].replace(pkd, "pk")
    labels = list(W)
    # serde_yaml::Value: Null 0, Bool 1, Number 2, String 3, Sequence 4, Mapping 5, Tagged 6 (vendored serde_yaml 0.9; mapping / tagged
    # payloads are outside the property's quantifier)
    scalar_kind = "(and (<= 0 pk) (<= pk 3))"
    term = (f"(or (and {scalar_kind} (xor {W[labels[0]]} {W[labels[2]]})) (and (= pk 4) (xor {W[labels[1]]} {W[labels[2]]})))")
    a.ob.check("loader/short-form/loaders-agree", ["(declare-const |in_single| Bool)", "(declare-const |in_seq| Bool)", "(declare-const pk Int)"], [], term,
               "for a tag with arbitrary membership in the two short-form tables (in_single, in_seq) and a payload of arbitrary kind pk: the "
               "validate loader wraps a scalar payload under exactly the condition under which the serde loader wraps a scalar payload, and "
               "likewise for a sequence payload - so `!Tag v` loads as the same value whichever command reads it. wrap conditions read from MIR: " + "; ".join(f"{k}: {v}" for k, v in W.items())[:600])
    item = a.ob.items[-1]
    if item["status"] == "refuted":
        item["replay"] = replay_short_form_loaders(a)
        item["reproduced"] = item["replay"].get("reproduced", False)
        a.candidates.append(item)


def replay_short_form_loaders(a):
    """every short-form tag with a scalar and with a sequence payload: `test` (serde loader) must evaluate kind tests on it
    exactly as `validate` (own loader) does"""
    import json, os, shutil, subprocess, tempfile
    exe = a.cli()
    if not exe:
        return {"reproduced": False, "note": "native build failed"}
    tags = ["Ref", "GetAtt", "Base64", "Sub", "GetAZs", "ImportValue", "Condition", "Select", "Split", "Join", "FindInMap", "And", "Equals", "If", "Not", "Or"]
    rules = "rule is_map {\n  v is_struct\n}\nrule is_str {\n  v is_string\n}\nrule is_lst {\n  v is_list\n}\n"
    d = tempfile.mkdtemp(prefix="cfnverif_replay_")
    env = dict(os.environ)
    env["RUST_BACKTRACE"] = "0"
    out, tried = [], []
    try:
        open(os.path.join(d, "r.guard"), "w").write(rules)
        for t in tags:
            for kind, payload in (("scalar", "s"), ("sequence", "[a, b]")):
                doc = f"v: !{t} {payload}\n"
                open(os.path.join(d, "d.yaml"), "w").write(doc)
                pr = subprocess.run([exe, "validate", "-r", "r.guard", "-d", "d.yaml", "--structured", "-o", "json", "--show-summary", "none"],
                                    cwd=d, capture_output=True, text=True, env=env, timeout=60)
                try:
                    rep = json.loads(pr.stdout)[0]
                except Exception:
                    tried.append({"tag": t, "payload": kind, "problem": "validate gave no report"})
                    continue
                val = {n: ("PASS" if n in rep.get("compliant", []) else "FAIL") for n in ("is_map", "is_str", "is_lst")}
                open(os.path.join(d, "t.yaml"), "w").write("- name: c\n  input:\n    " + doc + "  expectations:\n    rules:\n" +
                                                           "".join(f"      {n}: {s}\n" for n, s in val.items()))
                pt = subprocess.run([exe, "test", "-r", "r.guard", "-t", "t.yaml", "-o", "json"], cwd=d, capture_output=True, text=True, env=env, timeout=60)
                try:
                    failed = json.loads(pt.stdout)["test_cases"][0].get("failed_rules", [])
                except Exception:
                    tried.append({"tag": t, "payload": kind, "problem": "test gave no report"})
                    continue
                ok = pt.returncode == 0 and not failed
                tried.append({"tag": t, "payload": kind, "ok": ok})
                if not ok:
                    out.append({"document": doc, "validate_kind_tests": val, "test_disagrees_on": [f["name"] for f in failed]})
        return {"reproduced": bool(out), "mismatches": out[:4], "n_mismatches": len(out), "tried": len(tried),
                "note": "; ".join(f"{t['tag']}/{t['payload']}: {t['problem']}" for t in tried if "problem" in t)[:300] or None}
    finally:
        shutil.rmtree(d, ignore_errors=True)


def replay_yaml_positions(a):
    """YAML scalars of every style: the [L:..,C:..] reported for a failing value is where that scalar starts in the file
    (for a block scalar: its `|` / `>` indicator), 0-based as libyaml counts"""
    import json
    exe = a.cli()
    if not exe:
        return {"reproduced": False, "note": "native build failed"}
    text = ("a: 1\nz: |\n  text\n  more\nf: >-\n  folded\n  lines\nq: \"quoted\"\ns: 'single'\np: plain\nm:\n  inner: |-\n    deep\n  k: v\n"
            "l:\n  - |\n    item\n  - two\n")
    rules = ("rule t {\n  a == 2\n  z == \"x\"\n  f == \"x\"\n  q == \"x\"\n  s == \"x\"\n  p == \"x\"\n  m.inner == \"x\"\n  m.k == \"x\"\n"
             "  l[0] == \"x\"\n  l[1] == \"x\"\n}\n")
    rc, rep, err = a.run_structured(exe, rules, [text])
    if not (rep and isinstance(rep, list) and rep):
        return {"reproduced": False, "note": "no report", "exit": rc, "stderr": (err or "")[-200:]}
    lines = text.splitlines()
    want = {}
    for path, lineno, key in (("/a", 0, "a: "), ("/z", 1, "z: "), ("/f", 4, "f: "), ("/q", 7, "q: "), ("/s", 8, "s: "), ("/p", 9, "p: "),
                              ("/m/inner", 11, "  inner: "), ("/m/k", 13, "  k: "), ("/l/0", 15, "  - "), ("/l/1", 17, "  - ")):
        assert lines[lineno].startswith(key), (lineno, lines[lineno])
        want[path] = (lineno, len(key))
    blob = json.dumps(rep[0])
    got = {}
    for m in re.finditer(r"Path=(/[^\[\]]*)\[L:(\d+),C:(\d+)\]", blob):
        got.setdefault(m.group(1), set()).add((int(m.group(2)), int(m.group(3))))
    out = []
    for pth, pos in want.items():
        if pth not in got:
            out.append({"path": pth, "problem": "not reported"})
        elif got[pth] != {pos}:
            out.append({"path": pth, "expected_line_col": list(pos), "reported": sorted(got[pth]), "source_line": lines[pos[0]]})
    return {"reproduced": bool(out), "mismatches": out[:5], "document": text}


def loader_stops_at_stream_end(a):
    """C08: Loader::load pulls events until a document is complete. libyaml answers a parse request made AFTER the stream-end event with
    YAML_NO_EVENT, which convert_event does not handle (`_ => unimplemented!()`): so once StreamEnd has been seen, load must not ask for
    another event - it has to return (an input with no document at all - only comments, white space, a byte order mark - ends this way).
    The kind of every event is symbolic; two loop iterations."""
    EV = enum_variants(a.src, "rules/libyaml/event.rs", "Event")

    def m_next(ex, av):
        ev = ex.opq()
        ex.side.append(f"(and (<= 0 {disc(ex, ev)}) (< {disc(ex, ev)} {len(EV)}))")
        return ex.fresh_result(("tuple", [ev, ex.opq()]), "nx")
    ex = a.exec(LOADER + "load", {"next": m_next, "new": lambda ex, av: ex.opq(), "handle_mapping_start": lambda ex, av: ("unit",),
                                  "handle_mapping_end": mirexec.m_result_unit, "handle_sequence_start": lambda ex, av: ("unit",),
                                  "handle_sequence_end": lambda ex, av: ("unit",), "handle_scalar_event": lambda ex, av: ("unit",),
                                  "pop": mirexec.m_option, "push": lambda ex, av: ("unit",), "clear": lambda ex, av: ("unit",),
                                  "unwrap": lambda ex, av: (av[0][3].get("Some") if av and av[0][0] == "enum" and av[0][3].get("Some") else ex.opq()),
                                  "as_bytes": mirexec.m_identity},
                unroll=2, max_paths=20000, deepen=False)
    a.fns.append("rules::libyaml::loader::Loader::load")
    SE = EV.index("StreamEnd")
    bad, nnext = [], 0
    for p in ex.paths:
        nx = calls(p, "next")
        nnext += len(nx)
        for k, e in enumerate(nx[:-1]):
            if e[3][0] != "enum":
                continue
            ev = e[3][3]["Ok"][1][0]
            # a later request exists on this path: the event delivered by this one must not have been the stream end
            bad.append(f"(and {pc_term(p.pc)} (= {e[3][2]} 0) (= {disc(ex, ev)} {SE}))")
    c = a.discharge("loader/load/no-event-requested-after-stream-end", ex, bad,
                    f"Loader::load, two events of symbolic kind ({nnext} event requests over all paths): after the stream-end event no further event is "
                    "requested from libyaml (which would answer NO_EVENT, a kind the event conversion panics on): a stream without any document is an error")
    if c:
        c["replay"] = replay_no_document(a)
        c["reproduced"] = c["replay"].get("reproduced", False)
        a.candidates.append(c)


def replay_no_document(a):
    """data / parameter / payload documents that hold no YAML document at all: a diagnostic and an error exit, never a crash"""
    import os, shutil, subprocess, tempfile
    exe = a.cli()
    if not exe:
        return {"reproduced": False, "note": "native build failed"}
    d = tempfile.mkdtemp(prefix="cfnverif_replay_")
    out = []
    try:
        open(os.path.join(d, "r.guard"), "w").write("rule r { a exists }\n")
        open(os.path.join(d, "ok.json"), "w").write('{"a": 1}\n')
        docs = {"comment only": b"# only a comment\n", "two comments": b"# a\n  # b\n", "byte order mark only": b"\xef\xbb\xbf", "BOM and comment": b"\xef\xbb\xbf# c\n",
                "comment after blank lines": b"\n\n# c\n", "a real document": b"a: 1\n"}
        for label, body in docs.items():
            f = os.path.join(d, "w.yaml")
            open(f, "wb").write(body)
            for how, cmd in (("data file", [exe, "validate", "-r", os.path.join(d, "r.guard"), "-d", f, "--show-summary", "none"]),
                             ("data file, structured", [exe, "validate", "-r", os.path.join(d, "r.guard"), "-d", f, "--structured", "-o", "json", "--show-summary", "none"]),
                             ("input parameters", [exe, "validate", "-r", os.path.join(d, "r.guard"), "-d", os.path.join(d, "ok.json"), "-i", f, "--show-summary", "none"])):
                pr = subprocess.run(cmd, capture_output=True, timeout=60)
                crashed = pr.returncode == 101 or b"panicked" in pr.stderr
                good_doc = label == "a real document"
                if crashed or (not good_doc and pr.returncode in (0, 19) and how != "input parameters"):
                    out.append({"document": label, "given_as": how, "exit": pr.returncode, "crashed": crashed, "stderr": pr.stderr.decode("utf-8", "replace")[-160:]})
        return {"reproduced": bool(out), "mismatches": out[:5]}
    finally:
        shutil.rmtree(d, ignore_errors=True)


def loader_sequence_end(a):
    """C11 / C16: how the libyaml loader closes a sequence. On EVERY returning path - also for an empty sequence -: the innermost open
    container index is popped, the values above it are moved (drain / split_off) onto the open List in order, and the short-form-tag test
    (`func_support_index.last()` compared with the list's position) is made; when it holds, the tag entry and the list are popped and the
    list is stored under the tag's long name in the enclosing map"""
    LD = struct_fields(a.src, "rules/libyaml/loader.rs", "Loader")
    ex = a.exec(LOADER + "handle_sequence_end",
                {"pop": mirexec.m_option, "last": mirexec.m_option, "last_mut": mirexec.m_option, "map_or": lambda ex, av: ex.havoc("bool"),
                 "unwrap": lambda ex, av: (av[0][3].get("Some") if av and av[0][0] == "enum" and av[0][3].get("Some") else ex.opq()),
                 "drain": lambda ex, av: ex.opq(), "collect": mirexec.m_identity, "split_off": lambda ex, av: ex.opq(), "is_empty": lambda ex, av: ex.havoc("bool"),
                 "len": lambda ex, av: ("int", ex.len_of(av[0]))},
                log=("extend", "append", "insert", "drain", "split_off", "pop", "last", "map_or", "push"), unroll=1, max_paths=2000, deepen=False)
    a.fns.append("rules::libyaml::loader::Loader::handle_sequence_end")
    me = ex.arg_env["_1"]
    fld = lambda n: ex.proj.get((me[1], f".{LD.index(n)}"))
    bad, nret = [], 0
    for p in ex.paths:
        if p.outcome != "return":
            continue                      # the unwrap()s on an inconsistent loader state: not reachable from libyaml's balanced events (assumed)
        nret += 1
        ev = lambda n: [e for e in p.events if e[0] == "call" and e[1] == n]
        pops, moves, exts, lasts, mors, ins = ev("pop"), ev("drain") + ev("split_off"), ev("extend") + ev("append"), ev("last"), ev("map_or"), ev("insert")
        stack, lci, fsi = fld("stack"), fld("last_container_index"), fld("func_support_index")
        ok = (stack is not None and lci is not None and fsi is not None
              and len(pops) >= 1 and pops[0][2][0] == lci
              and len(moves) == 1 and moves[0][2][0] == stack
              and len(exts) == 1 and exts[0][2][1] == moves[0][3]
              and len(lasts) == 1 and lasts[0][2][0] == fsi and len(mors) == 1)
        if not ok:
            bad.append(pc_term(p.pc))
            continue
        tagged = mors[0][3][1]
        if len(pops) == 3 and len(ins) == 1:
            wired = pops[1][2][0] == fsi and pops[2][2][0] == stack and ins[0][2][2] == pops[2][3][3].get("Some")
            bad.append(f"(and {pc_term(p.pc)} (not (and {tagged} {'true' if wired else 'false'})))")
        elif len(pops) == 3 and not ins:
            bad.append(f"(and {pc_term(p.pc)} (not {tagged}))")            # enclosing value is a BadValue: nothing stored
        elif len(pops) == 1 and not ins:
            bad.append(f"(and {pc_term(p.pc)} {tagged})")
        else:
            bad.append(pc_term(p.pc))
    c = a.discharge("loader/handle_sequence_end/every-sequence-is-closed-the-same-way", ex, bad,
                    f"Loader::handle_sequence_end ({nret} returning paths): on every one of them the container index is popped, the values above it are moved onto "
                    "the open list by one extend, and the short-form-tag test is made; exactly when it holds the tag entry and the list are popped and the list is "
                    "inserted into the enclosing map - an empty sequence takes the same route")
    if c:
        c["replay"] = replay_tagged_empty_sequences(a)
        c["reproduced"] = c["replay"].get("reproduced", False)
        a.candidates.append(c)


def replay_tagged_empty_sequences(a):
    """short-form tags on EMPTY (and one-element) sequences, in a list / in a map with further keys / as the last key: validate's verdict on
    the short form equals its verdict on the long form, and there is no crash"""
    import os, shutil, subprocess, tempfile
    exe = a.cli()
    if not exe:
        return {"reproduced": False, "note": "native build failed"}
    d = tempfile.mkdtemp(prefix="cfnverif_replay_")
    out = []
    try:
        pairs = [("in a list", "L: [!Join [], tail]\n", 'L: [{"Fn::Join": []}, tail]\n', "rule r {\n  L[0] is_struct\n  L[1] == \"tail\"\n  L[2] !exists\n}\n"),
                 ("in a map, more keys after it", "Always: !And []\nOther: x\n", 'Always: {"Fn::And": []}\nOther: x\n', "rule r {\n  Always is_struct\n  Other == \"x\"\n}\n"),
                 ("last key of a map", "M:\n  Other: x\n  Always: !Or []\n", 'M:\n  Other: x\n  Always: {"Fn::Or": []}\n', "rule r {\n  M.Always is_struct\n  M.Other == \"x\"\n}\n"),
                 ("block style", "V: !Join\n  []\nZ: 1\n", 'V: {"Fn::Join": []}\nZ: 1\n', "rule r {\n  V is_struct\n  Z == 1\n}\n"),
                 ("one element", "V: !Join [a]\nZ: 1\n", 'V: {"Fn::Join": [a]}\nZ: 1\n', "rule r {\n  V is_struct\n  Z == 1\n}\n")]
        for label, short, long_, rules in pairs:
            open(os.path.join(d, "r.guard"), "w").write(rules)
            rcs = []
            for text in (short, long_):
                open(os.path.join(d, "d.yaml"), "w").write(text)
                pr = subprocess.run([exe, "validate", "-r", os.path.join(d, "r.guard"), "-d", os.path.join(d, "d.yaml"), "--show-summary", "none"],
                                    capture_output=True, text=True, timeout=60)
                rcs.append(pr.returncode)
            if rcs[0] != rcs[1] or rcs[1] != 0:
                out.append({"case": label, "short_form": short, "long_form": long_, "exit_short": rcs[0], "exit_long": rcs[1]})
        return {"reproduced": bool(out), "mismatches": out[:4]}
    finally:
        shutil.rmtree(d, ignore_errors=True)


def scalar_bytes_wiring(a):
    """C11 (validate's libyaml loader vs the serde loaders of `test` / the library): the bytes of a scalar event are EXACTLY the buffer
    libyaml reports - `from_raw_parts(event.data.scalar.value, event.data.scalar.length)`, pointer and length of the same union member -
    not a C-string reading of the pointer (which would stop at an embedded NUL) and not another member's length. FFI boundary: what
    libyaml puts into the event is assumed, only the wiring on this side is decided."""
    ex = a.exec(r"(?:(?:rules::)?libyaml::event::)?convert_event", {},
                log=("from_raw_parts", "from_ptr", "to_bytes", "strlen", "optional_bytes", "from_bytes_until_nul", "from_bytes_with_nul"),
                unroll=1, max_paths=20000, deepen=False)
    a.fns.append("rules::libyaml::event::convert_event (scalar arm)")
    ev = ex.arg_env["_1"]
    SCALAR, VALUE, LENGTH = ".4", ".2", ".3"       # yaml_event_t.data (.1) . scalar (.4) . value (.2) / length (.3): unsafe-libyaml 0.2.x layout
    import mirflow
    bad, nsc = [], 0
    for p in ex.paths:
        r = p.ret
        if not (p.outcome == "return" and r and r[0] == "variant" and r[2] == "Scalar"):
            continue
        nsc += 1
        frp = calls(p, "from_raw_parts")
        cstr = [e for e in p.events if e[0] == "call" and e[1] in ("from_ptr", "to_bytes", "strlen", "optional_bytes", "from_bytes_until_nul", "from_bytes_with_nul")]
        if len(frp) != 1 or cstr or len(frp[0][2]) != 2 or frp[0][2][1][0] != "int":
            bad.append(pc_term(p.pc))
            continue
        ptr_ok = mirflow.origin(ex, frp[0][2][0]) == (ev, [".1", SCALAR, VALUE])
        # the length: the scalar member's own length field (a u64 -> usize cast of it)
        dat = ex.proj.get((ev[1], ".1"))
        sc = ex.proj.get((dat[1], SCALAR)) if dat else None
        ln = ex.proj.get((sc[1], LENGTH)) if sc else None
        good = f"(= {frp[0][2][1][1]} {ln[1]})" if (ptr_ok and ln is not None and ln[0] == "int") else "false"
        bad.append(f"(and {pc_term(p.pc)} (not {good}))")
    c = a.discharge("libyaml/convert_event/scalar-bytes", ex, bad,
                    f"convert_event, scalar arm ({nsc} scalar-returning paths, one per scalar style x with / without source text): the value is built from "
                    "from_raw_parts(<the event's scalar.value>, <the same scalar's length>) - the length libyaml reports, not the position of the "
                    "first NUL byte - and from nothing else")
    if c:
        c["replay"] = replay_embedded_nul(a)
        c["reproduced"] = c["replay"].get("reproduced", False)
        a.candidates.append(c)


def replay_embedded_nul(a):
    """a string with an embedded U+0000 (JSON \\u0000, YAML "\\0") is the same string for validate (libyaml loader) and for `test` (serde)"""
    import os, shutil, subprocess, tempfile
    exe = a.cli()
    if not exe:
        return {"reproduced": False, "note": "native build failed"}
    d = tempfile.mkdtemp(prefix="cfnverif_replay_")
    out = []
    try:
        rules = "rule whole {\n  Name == /^ab.cd$/\n  Name != \"ab\"\n}\nrule key {\n  M[ keys == /^k.z$/ ] !empty\n}\n"
        open(os.path.join(d, "r.guard"), "w").write(rules)
        docs = {"d.json": '{"Name": "ab\\u0000cd", "M": {"k\\u0000z": 1}}\n', "d.yaml": 'Name: "ab\\0cd"\nM:\n  "k\\0z": 1\n',
                "flow.yaml": '{Name: "ab\\x00cd", M: {"k\\0z": 1}}\n'}
        for fn, text in docs.items():
            open(os.path.join(d, fn), "w").write(text)
            pr = subprocess.run([exe, "validate", "-r", os.path.join(d, "r.guard"), "-d", os.path.join(d, fn), "--show-summary", "none"],
                                capture_output=True, text=True, timeout=60)
            if pr.returncode != 0:
                out.append({"document": text, "cmd": "validate", "expected_exit": 0, "observed_exit": pr.returncode, "output": (pr.stdout + pr.stderr)[-300:]})
        open(os.path.join(d, "t.yaml"), "w").write('- name: c\n  input:\n    Name: "ab\\0cd"\n    M:\n      "k\\0z": 1\n  expectations:\n    rules:\n      whole: PASS\n      key: PASS\n')
        pr = subprocess.run([exe, "test", "-r", os.path.join(d, "r.guard"), "-t", os.path.join(d, "t.yaml")], capture_output=True, text=True, timeout=60)
        if pr.returncode != 0:
            out.append({"cmd": "test", "expected_exit": 0, "observed_exit": pr.returncode, "output": (pr.stdout + pr.stderr)[-300:]})
        return {"reproduced": bool(out), "mismatches": out, "rules_file": rules}
    finally:
        shutil.rmtree(d, ignore_errors=True)


def short_form_sets_subset(a):
    """C08 / C11: short_form_to_long ends in `_ => unreachable!()`; both loaders call it after finding the tag in SINGLE_VALUE_FUNC_REF
    or SEQUENCE_VALUE_FUNC_REF. Precondition of that arm being unreachable: every member of the two sets is a key of
    SHORT_FORM_TO_LONG_MAPPING. The three tables are read off their lazy_static initialisers in the MIR of the current tree; the
    solver decides `exists t: t in SINGLE u SEQUENCE and t not a key` over a String symbol (a model is the offending tag)."""
    inits = {"HashMap<&str, &str>": [], "HashSet<&str>": []}
    for m in re.finditer(r"^fn (?:rules::)?<impl at [^>]*lazy_static[^>]*>::deref::__static_ref_initialize\(\) -> (Hash(?:Map|Set)<&str(?:, &str)?>) \{$", a.mir, re.M):
        end = a.mir.index("\n}\n", m.start())
        inits[m.group(1)].append(a.mir[m.start():end])
    def inserted(body, arity):
        # constants handed to insert, directly or through a local assigned once from a constant
        consts = dict(re.findall(r"^\s*(_\d+) = const \"([^\"]*)\";$", body, re.M))
        out = []
        for m in re.finditer(r"= Hash(?:Map|Set)::<[^>]*>::insert\(([^)]*)\) ->", body):
            args = [x.strip() for x in m.group(1).split(",")][1:]
            vals = []
            for x in args:
                mc = re.match(r'const "([^"]*)"$', x)
                mv = re.match(r"(?:move|copy) (_\d+)$", x)
                vals.append(mc.group(1) if mc else consts.get(mv.group(1)) if mv else None)
            out.append(vals)
        return out
    ok_shape = len(inits["HashMap<&str, &str>"]) == 1 and len(inits["HashSet<&str>"]) == 2
    keys, members = [], []
    if ok_shape:
        keys = [v[0] for v in inserted(inits["HashMap<&str, &str>"][0], 2)]
        for b in inits["HashSet<&str>"]:
            members += [v[0] for v in inserted(b, 1)]
    to_long = ""
    try:
        to_long = mirsmt.find_fn(a.mir, r"(?:rules::)?short_form_to_long")
    except Untranslatable:
        ok_shape = False
    a.fns.append("rules::short_form_to_long + the three lazy_static tables it depends on")
    if not ok_shape or not keys or not members or None in keys or None in members:
        a.ob.items.append({"obligation": "loader/short-form/every-known-tag-has-a-long-form", "describe": "tables not found / not constant in the MIR",
                           "verdicts": {}, "status": "inconclusive", "model": None})
        return
    esc = lambda x: '"' + x.replace('"', '""') + '"'
    in_sets = "(or false " + " ".join(f"(= t {esc(x)})" for x in members) + ")"
    in_keys = "(or false " + " ".join(f"(= t {esc(x)})" for x in keys) + ")"
    total = "HashMap::<&str, &str>::get" in to_long and "entered unreachable code" in to_long
    a.ob.check("loader/short-form/every-known-tag-has-a-long-form", ["(declare-const t String)"], [in_sets], f"(not {in_keys})" if total else "false",
               f"every tag of SINGLE_VALUE_FUNC_REF u SEQUENCE_VALUE_FUNC_REF ({len(members)} members read off the MIR) is a key of "
               f"SHORT_FORM_TO_LONG_MAPPING ({len(keys)} keys): short_form_to_long's `unreachable!()` arm cannot be entered by either loader "
               "(a model is the tag that panics)" + ("" if total else " [short_form_to_long no longer has a panicking arm: nothing to show]"))
    item = a.ob.items[-1]
    item["paths"], item["cut_by_unroll_bound"], item["unroll"] = 1, 0, 0
    if item["status"] == "refuted":
        item["replay"] = replay_every_known_tag(a, sorted(set(members)))
        item["reproduced"] = item["replay"].get("reproduced", False)
        a.candidates.append(item)


def replay_every_known_tag(a, tags=None):
    """each tag of the two sets on a scalar and on a sequence through `validate`: a panic (exit 101 / 'panicked at') reproduces"""
    exe = a.cli()
    if not exe:
        return {"reproduced": False, "note": "native build failed"}
    if tags is None:
        tags = ["Ref", "GetAtt", "Base64", "Sub", "GetAZs", "ImportValue", "Condition", "Select", "Split", "Join", "FindInMap", "If", "And", "Or",
                "Not", "Equals", "Cidr", "Transform", "Contains", "Length", "ToJsonString"]
    import os, tempfile, shutil, subprocess
    out = []
    for t in tags:
        d = tempfile.mkdtemp(prefix="cfnverif_replay_")
        try:
            open(os.path.join(d, "r.guard"), "w").write("rule t {\n  A exists\n}\n")
            open(os.path.join(d, "d.yaml"), "w").write(f"A: !{t} x\nB: !{t} [ 1, 2 ]\nC:\n  - !{t} [ !{t} y ]\n")
            p = subprocess.run([exe, "validate", "-r", os.path.join(d, "r.guard"), "-d", os.path.join(d, "d.yaml"), "--structured", "-o", "json",
                                "--show-summary", "none"], stdout=subprocess.PIPE, stderr=subprocess.PIPE, text=True, timeout=120)
            out.append({"tag": t, "exit": p.returncode, "panicked": p.returncode == 101 or "panicked at" in p.stderr, "stderr": p.stderr[:200]})
        finally:
            shutil.rmtree(d, ignore_errors=True)
    badc = [o for o in out if o["panicked"]]
    return {"reproduced": bool(badc), "mismatches": badc[:5], "cases": out}


SITES = {"C11": [scalar_typing, type_ref, short_form_tables, short_form_sets_subset, serde_number_typing, short_form_loader_agreement, scalar_bytes_wiring, loader_sequence_end], "C16": [serde_number_typing, short_form_loader_agreement, loader_sequence_end, scalar_typing, type_ref], "C10": [scalar_typing], "C08": [loader_stops_at_stream_end, loader_sequence_end, short_form_sets_subset],
         "C19": [scalar_typing]}
