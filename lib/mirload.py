"""C11: how the YAML/JSON loader types a scalar (libyaml/loader.rs handle_scalar_event, handle_type_ref), decided on
MIR with the std parsers modelled as fallible calls (engine: mirexec.Exec; z3 + cvc5)."""
import re
import mirsmt, mirexec
from mirsmt import Untranslatable, pc_term
from miragg import calls
from mirblocks import enum_variants, struct_fields, disc, field, payload, m_result_opq
from mirflow import same

LOADER = r"(?:rules::libyaml::)?loader::<impl at guard/src/rules/libyaml/loader\.rs:\d+:\d+: \d+:\d+>::"


def mk_models(ex_holder, SS):
    lits = {}

    def m_streq(ex, argv):
        lit = [x for x in argv if x[0] == "str"]
        oth = [x for x in argv if x[0] != "str"]
        if len(lit) == 1 and len(oth) == 1 and oth[0][0] == "opaque":
            k = (oth[0][1], lit[0][1])
            if k not in lits:
                lits[k] = ex.fresh("Bool", "streq")
            return ("bool", lits[k])
        return ex.havoc("bool")

    def m_style_ne(ex, argv):
        var = [x for x in argv if x[0] == "variant"]
        oth = [x for x in argv if x[0] != "variant"]
        if len(var) == 1 and len(oth) == 1 and var[0][2] in SS:
            return ("bool", f"(not (= {disc(ex, oth[0])} {SS.index(var[0][2])}))")
        return ex.havoc("bool")

    def m_parse(ex, argv):
        c = ex.cur_callee or ""
        if "parse::<i64>" in c:
            return ex.fresh_result(ex.fresh_int("i64", "pi"), "pari64")
        if "parse::<bool>" in c:
            return ex.fresh_result(("bool", ex.fresh("Bool", "pb")), "parbool")
        return ex.fresh_result(ex.opq(), "parf64")
    return {"eq": m_streq, "ne": m_style_ne, "parse": m_parse, "to_string": mirexec.m_identity, "as_str": mirexec.m_identity,
            "as_ref": mirexec.m_identity, "from_utf8": m_result_opq, "to_lowercase": lambda ex, av: ex.opq(),
            "starts_with": lambda ex, av: ("bool", ex.fresh("Bool", "sw")), "get_handle": lambda ex, av: ex.opq(),
            "get_suffix": lambda ex, av: ex.opq(), "handle_single_value_func_ref": mirexec.m_option,
            "handle_type_ref": lambda ex, av: ex.opq(), "map_or": lambda ex, av: ex.opq()}, lits


def scalar_typing(a):
    SS = enum_variants(a.src, "rules/libyaml/event.rs", "ScalarStyle")
    SC = struct_fields(a.src, "rules/libyaml/event.rs", "Scalar")
    models, lits = mk_models(None, SS)
    ex = a.exec(LOADER + "handle_scalar_event", models, log=("push",), unroll=1, max_paths=20000)
    a.fns.append("rules::libyaml::loader::Loader::handle_scalar_event")
    ev, loc = ex.arg_env["_2"], ex.arg_env["_3"]
    tag = field(ex, ev, SC.index("tag"), "Option")
    style = field(ex, ev, SC.index("style"), "ScalarStyle")
    plain = f"(= {disc(ex, style)} {SS.index('Plain')})"
    no_tag = f"(= {disc(ex, tag)} 0)"
    bad = []
    for p in ex.paths:
        pu = [e for e in calls(p, "push") if len(e[2]) == 2]
        if p.outcome != "return" or len(pu) != 1:
            bad.append(pc_term(p.pc))
            continue
        v = pu[0][2][1]
        pars = {("i64" if "i64" in e[5] else "bool" if "bool" in e[5] else "f64"): e for e in calls(p, "parse")}
        utf = calls(p, "from_utf8")
        val = None
        for e in calls(p, "to_string"):
            val = e[3]
        if v[0] == "opaque":
            # tagged scalars: result of the tag handlers (checked separately); must not happen for an untagged scalar
            bad.append(f"(and {pc_term(p.pc)} {no_tag})")
            continue
        if v[0] != "variant" or v[1] != "MarkedValue":
            bad.append(pc_term(p.pc))
            continue
        kind, pl = v[2], v[3]
        loc_ok = bool(pl) and same(pl[-1], loc)
        i_ok = f"(= {pars['i64'][3][2]} 0)" if "i64" in pars else None
        f_ok = f"(= {pars['f64'][3][2]} 0)" if "f64" in pars else None
        b_ok = f"(= {pars['bool'][3][2]} 0)" if "bool" in pars else None
        nullish = "(or false " + " ".join(e[3][1] for e in calls(p, "eq") if e[3][0] == "bool" and any(x[0] == "str" and x[1] in ("~", "null") for x in e[2])) + ")"
        struct_ok = loc_ok
        if kind == "String":
            want = f"(or (not {no_tag}) (not {plain})" + (f" (and (not {i_ok}) (not {f_ok}) (not {b_ok}) (not {nullish}))" if (i_ok and f_ok and b_ok) else "") + ")"
            struct_ok = struct_ok and len(pl) == 2 and pl[0][0] in ("opaque", "str")
        elif kind == "Int":
            want = f"(and {no_tag} {plain} {i_ok or 'false'})"
            struct_ok = struct_ok and "i64" in pars and same(pl[0], pars["i64"][3][3]["Ok"])
        elif kind == "Float":
            want = f"(and {no_tag} {plain} (not {i_ok or 'true'}) {f_ok or 'false'})"
            struct_ok = struct_ok and "f64" in pars and same(pl[0], pars["f64"][3][3]["Ok"])
        elif kind == "Bool":
            want = f"(and {no_tag} {plain} (not {i_ok or 'true'}) (not {f_ok or 'true'}) {b_ok or 'false'})"
            struct_ok = struct_ok and "bool" in pars and same(pl[0], pars["bool"][3][3]["Ok"])
        elif kind == "Null":
            want = f"(and {no_tag} {plain} (not {i_ok or 'true'}) (not {f_ok or 'true'}) (not {b_ok or 'true'}) {nullish})"
        else:
            want = "false"
        bad.append(f"(and {pc_term(p.pc)} (not {want if struct_ok else 'false'}))")
    c = a.discharge("loader/handle_scalar_event/typing-cascade", ex, bad,
                    "YAML/JSON loader, one scalar (std parsers modelled as fallible calls): an untagged scalar that is not plain (quoted, "
                    "block) is always a String; an untagged plain scalar is Int iff it parses as i64, else Float iff it parses as f64, "
                    "else Bool iff it parses as bool, else Null iff it is `~` / `null` (any case), else String; the typed value is the "
                    "parser's result and carries the scalar's own location; exactly one value is pushed")
    if c:
        c["replay"] = replay_scalars(a)
        c["reproduced"] = c["replay"].get("reproduced", False)
        a.candidates.append(c)


def type_ref(a):
    SS = enum_variants(a.src, "rules/libyaml/event.rs", "ScalarStyle")
    models, lits = mk_models(None, SS)
    ex = a.exec(r"(?:(?:rules::libyaml::)?loader::)?handle_type_ref", models, unroll=1, max_paths=20000)
    a.fns.append("rules::libyaml::loader::handle_type_ref")
    val, loc, tref = ex.arg_env["_1"], ex.arg_env["_2"], ex.arg_env["_3"]
    bad = []
    for p in ex.paths:
        v = p.ret
        if p.outcome != "return" or not v or v[0] != "variant" or v[1] != "MarkedValue":
            bad.append(pc_term(p.pc))
            continue
        eqs = {x[1]: e[3][1] for e in calls(p, "eq") if e[3][0] == "bool" for x in e[2] if x[0] == "str"}
        pars = calls(p, "parse")
        # which explicit tag this path is about = the one literal whose comparison is true on the path
        is_ = lambda suffix: eqs.get("tag:yaml.org,2002:" + suffix, "false")
        kind, pl = v[2], v[3]
        loc_ok = bool(pl) and same(pl[-1], loc)
        par_ok = f"(= {pars[0][3][2]} 0)" if pars else "false"
        par_val = pars[0][3][3]["Ok"] if pars else None
        par_ty = ("i64" if "i64" in pars[0][5] else "bool" if "bool" in pars[0][5] else "f64") if pars else None
        if kind == "Bool":
            want = f"(and {is_('bool')} {par_ok})" if (par_ty == "bool" and same(pl[0], par_val)) else "false"
        elif kind == "Int":
            want = f"(and {is_('int')} {par_ok})" if (par_ty == "i64" and same(pl[0], par_val)) else "false"
        elif kind == "Float":
            want = f"(and {is_('float')} {par_ok})" if (par_ty == "f64" and same(pl[0], par_val)) else "false"
        elif kind == "Null":
            want = is_("null")
        elif kind == "BadValue":
            want = f"(and (or {is_('int')} {is_('float')}) (not {par_ok}))" if same(pl[0], val) else "false"
        elif kind == "String":
            want = (f"(or (and {is_('bool')} (not {par_ok})) (not (or {is_('bool')} {is_('int')} {is_('float')} {is_('null')})))"
                    if same(pl[0], val) else "false")
        else:
            want = "false"
        bad.append(f"(and {pc_term(p.pc)} (not {want if loc_ok else 'false'}))")
    a.discharge("loader/handle_type_ref/explicit-tags", ex, bad,
                "explicit core tags: !!bool -> Bool if it parses, else the text stays a String; !!int / !!float -> the parsed number, or a "
                "BadValue (rejected later) if it does not parse; !!null -> Null; any other tag -> String; the value keeps the scalar's "
                "location")


def replay_scalars(a):
    exe = a.cli()
    if not exe:
        return {"reproduced": False, "note": "native build failed"}
    data = ('i: 12\nn: -3\nf: 1.5\ne: 1e3\ne2: 25e-1\nb: true\nz: null\nt: ~\ns: abc\nqi: "12"\nqb: \'true\'\nqz: "null"\nqf: "1.5"\nblk: |\n  12\n'
            'j: {"i": 7, "s": "7", "b": false, "z": null}\n')
    cases = [("i is_int", "PASS"), ("n is_int", "PASS"), ("f is_float", "PASS"), ("b is_bool", "PASS"), ("z is_null", "PASS"),
             ("t is_null", "PASS"), ("s is_string", "PASS"), ("qi is_string", "PASS"), ("qb is_string", "PASS"), ("qz is_string", "PASS"),
             ("qf is_string", "PASS"), ("blk is_string", "PASS"), ("i == 12", "PASS"), ("qi == \"12\"", "PASS"), ("qi == 12", "FAIL"),
             ("j.i is_int", "PASS"), ("j.s is_string", "PASS"), ("j.b is_bool", "PASS"), ("j.z is_null", "PASS"), ("f is_int", "FAIL"),
             ("i is_float", "FAIL"), ("b is_string", "FAIL"), ("e is_float", "PASS"), ("e == 1000.0", "PASS"), ("e2 == 2.5", "PASS"),
             ("j.i == 7", "PASS")]
    return a.replay_cases(exe, data, cases)


SITES = {"C11": [scalar_typing, type_ref]}
